import json, sys
sys.path.insert(0,'/verif')
from sim.props import PROPS
TEXT = json.load(open('/verif/manifest_texts.json'))
allp = [json.loads(l)['id'] for l in open('/verif/properties.jsonl')]
checks = []
for pid in allp:
    if pid not in PROPS: continue
    p = PROPS[pid]; t = TEXT[pid]
    checks.append({
        "property_id": pid,
        "quick_cmd": f"./check {pid} --tier quick",
        "thorough_cmd": f"./check {pid} --tier thorough",
        "evidence_file": f"evidence/{pid}.json",
        "replay_cmd_template": f"./check {pid} --replay {{path}}",
        "engine": "tawazi-dst",
        "level_claimed": {"category": p.level, "text": t["text"], "design_ref": f"DESIGN.md section 4, {pid}"},
        "level_note": t["note"],
        "technique": t["technique"],
    })
m = {
 "version": 1,
 "setup_cmd": "./check selftest",
 "hooks": {"guard": "none (no hook in /repo: every seam is installed from outside)", "enable": "not needed: checks import the working tree of /repo (editable install in /venv) and install their seams at import time",
           "baseline_off_cmd": "cd /repo && /venv/bin/python -m pytest -q -p no:cacheprovider --timeout=900", "source_commits": [], "add_only": True},
 "engines": [{"name": "tawazi-dst", "path": "sim/", "serves_properties": [c["property_id"] for c in checks],
              "kind_free_text": "deterministic simulation with fault injection: real tawazi + real asyncio + real threads under a seeded baton-passing controller, generated programs/histories/fault plans, reference models as oracles, seeded schedule search, shrinking, replay files"}],
 "checks": checks,
 "not_applicable": [{"property_id": pid, "reason": TEXT.get(pid, {}).get("na", "check under construction in this session (see DESIGN.md section 4); not claimed until its oracle is implemented")} for pid in allp if pid not in PROPS],
 "notes": "All checks: ./check Cxx --tier quick|thorough; VERIF_SEED selects the seed block; exit 3 = harness error (never a verdict). known_findings.json lists recorded and fixed findings.",
}
json.dump(m, open('/verif/MANIFEST.json','w'), indent=1)
print(len(checks), 'checks;', len(m['not_applicable']), 'unclaimed')
