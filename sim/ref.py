"""Reference models: plain sequential evaluation of a generated program, selection set algebra,
compound priority, greedy order, compose closure.  Shares no code with tawazi.
"""
from __future__ import annotations

import ast
import operator
from typing import Any, Dict, List, Optional, Set, Tuple

from .values import F


class _Absent:
    def __repr__(self) -> str:
        return "ABSENT"


ABSENT = _Absent()


class RefUndefined(Exception):
    """The program left the fragment Python defines (generator bug / excluded case)."""


_OPS = {"+": operator.add, "-": operator.sub, "*": operator.mul, "<": operator.lt, ">": operator.gt,
        "==": operator.eq, "!=": operator.ne, "<=": operator.le, ">=": operator.ge, "&": operator.and_,
        "|": operator.or_, "^": operator.xor, "//": operator.floordiv, "%": operator.mod, "**": operator.pow,
        "<<": operator.lshift, ">>": operator.rshift}
_UOPS = {"-": operator.neg, "~": operator.invert, "abs": abs}

Path = Tuple[Tuple[str, int], ...]


def const(r: str) -> Any:
    return ast.literal_eval(r)


class RefResult:
    def __init__(self) -> None:
        self.ret: Any = None
        self.calls: List[tuple] = []          # (path, fname, args, kwargs) in evaluation order
        self.status: Dict[Path, str] = {}      # exec | deact | skipped | memo | debug-off | op
        self.values: Dict[Path, Any] = {}      # value of the main node of the statement
        self.setup_memo: Dict[Path, Any] = {}

    @property
    def executed(self) -> Set[Path]:
        return {p for p, s in self.status.items() if s in ("exec", "op")}


class RefEval:
    def __init__(self, spec: dict) -> None:
        self.spec = spec

    def run(self, dname: str, args: List[Any], *, setup_memo: Optional[Dict[Path, Any]] = None,
            debug_on: bool = False, selected: Optional[Set[int]] = None,
            subst: Optional[Dict[str, Any]] = None, no_exec_setup: bool = False) -> RefResult:
        """Evaluate DAG `dname` on `args`.

        selected: top-level statement indices that take part (None = all); others are absent.
        subst:    top-level variable name -> value supplied from outside (compose inputs).
        setup_memo: path -> value of setup nodes already executed on this instance (mutated).
        """
        res = RefResult()
        res.setup_memo = setup_memo if setup_memo is not None else {}
        self._debug_on = debug_on
        res.ret = self._dag(res, dname, list(args), (), selected, subst or {}, False)
        return res

    # ------------------------------------------------------------------
    def _get(self, env: Dict[str, Any], e: list) -> Any:
        if e[0] == "c":
            return const(e[1])
        v = env.get(e[1], ABSENT)
        if v is ABSENT:
            return None  # unexecuted id reads as None whatever the key path
        for k in e[2]:
            if v is None:
                raise RefUndefined(f"index {k!r} on None in {e}")
            v = v[k]
        return v

    def _dag(self, res: RefResult, dname: str, args: List[Any], prefix: Path,
             selected: Optional[Set[int]], subst: Dict[str, Any], deact: bool) -> Any:
        dg = self.spec["dags"][dname]
        params = dg["params"]
        if len(args) > len(params):
            raise RefUndefined("too many arguments")
        env: Dict[str, Any] = {}
        for i, (pn, has_d, dr, *_rest) in enumerate(params):
            if i < len(args):
                env[pn] = args[i]
            elif has_d:
                env[pn] = const(dr)
            else:
                env[pn] = ABSENT  # missing required argument (only in dedicated cases)
        for k, v in subst.items():
            env[k] = v
        for idx, s in enumerate(dg["stmts"]):
            path = prefix + ((dname, idx),)
            outs = s["out"]
            if subst and all(o in subst for o in outs):
                res.status[path] = "input"
                continue
            if selected is not None and not prefix and idx not in selected:
                if s["k"] == "call" and self.spec["funcs"][s["fn"]]["setup"] and path in res.setup_memo:
                    self._bind(env, s, res.setup_memo[path])
                    res.status[path] = "memo"
                    res.values[path] = res.setup_memo[path]
                else:
                    for o in outs:
                        env[o] = ABSENT
                    res.status[path] = "skipped"
                continue
            self._stmt(res, env, s, path, deact)
        if deact:
            return None  # outputs of a deactivated nested DAG are all None; the caller binds them
        return self._ret(env, dg["ret"])

    def _bind(self, env: Dict[str, Any], s: dict, value: Any) -> None:
        outs = s["out"]
        if s["k"] == "call" and s["unpack"]:
            for i, o in enumerate(outs):
                env[o] = value[i] if value is not None else None
        else:
            env[outs[0]] = value

    def _stmt(self, res: RefResult, env: Dict[str, Any], s: dict, path: Path, deact: bool) -> None:
        k = s["k"]
        if k == "call":
            f = self.spec["funcs"][s["fn"]]
            if f["setup"]:
                if path in res.setup_memo:
                    res.status[path] = "memo"
                    res.values[path] = res.setup_memo[path]
                    self._bind(env, s, res.setup_memo[path])
                    return
            elif deact:
                res.status[path] = "deact"
                res.values[path] = None
                self._bind(env, s, None)
                return
            if f["debug"] and not self._debug_on:
                res.status[path] = "debug-off"
                for o in s["out"]:
                    env[o] = ABSENT
                return
            if s["flag"] is not None and not self._get(env, s["flag"]):
                res.status[path] = "deact"
                res.values[path] = None
                self._bind(env, s, None)
                return
            args = tuple(self._get(env, a) for a in s["args"])
            kwargs = {kw: self._get(env, e) for kw, e in s["kwargs"]}
            v = F(f["c"], f["ret"], args, kwargs)
            res.calls.append((path, s["fn"], args, kwargs))
            res.status[path] = "exec"
            res.values[path] = v
            if f["setup"]:
                res.setup_memo[path] = v
            self._bind(env, s, v)
        elif k in ("op", "uop", "logic"):
            if deact:
                res.status[path] = "deact"
                res.values[path] = None
                env[s["out"][0]] = None
                return
            try:
                if k == "op":
                    v = _OPS[s["op"]](self._get(env, s["a"]), self._get(env, s["b"]))
                elif k == "uop":
                    v = _UOPS[s["op"]](self._get(env, s["a"]))
                else:
                    a = [self._get(env, e) for e in s["args"]]
                    v = (a[0] and a[1]) if s["fn"] == "and_" else (a[0] or a[1]) if s["fn"] == "or_" else (not a[0])
            except TypeError as e:
                raise RefUndefined(str(e)) from e
            res.status[path] = "op"
            res.values[path] = v
            env[s["out"][0]] = v
        elif k == "dag":
            inner_deact = deact or (s["flag"] is not None and not self._get(env, s["flag"]))
            args = [self._get(env, a) for a in s["args"]]
            res.status[path] = "dag-deact" if inner_deact else "dag"
            r = self._dag(res, s["dag"], args, path, None, {}, inner_deact)
            if inner_deact:
                for o in s["out"]:
                    env[o] = None
                return
            if s["shape"] in ("single", "whole"):
                env[s["out"][0]] = r
            else:
                for o, key in zip(s["out"], s["outkeys"]):
                    env[o] = r[key]
        else:
            raise ValueError(k)

    def _ret(self, env: Dict[str, Any], ret: dict) -> Any:
        sh = ret["shape"]
        if sh == "none":
            return None
        items = [self._get(env, e) for e in ret["items"]]
        if sh in ("single", "pass"):
            return items[0]
        if sh == "tuple":
            return tuple(items)
        if sh == "list":
            return items
        return dict(zip(ret["keys"], items))


# ------------------------------------------------------------------------- graph-level models
def stmt_deps(spec: dict, dname: str) -> Dict[int, Set[int]]:
    """Top-level dependency graph between statements of one (flat) DAG: idx -> set of idx it reads."""
    dg = spec["dags"][dname]
    producer: Dict[str, int] = {}
    deps: Dict[int, Set[int]] = {}
    for idx, s in enumerate(dg["stmts"]):
        es: List[list] = []
        if s["k"] == "call":
            es = list(s["args"]) + [e for _, e in s["kwargs"]] + ([s["flag"]] if s["flag"] is not None else [])
        elif s["k"] == "op":
            es = [s["a"], s["b"]]
        elif s["k"] == "uop":
            es = [s["a"]]
        elif s["k"] == "logic":
            es = list(s["args"])
        elif s["k"] == "dag":
            es = list(s["args"]) + ([s["flag"]] if s["flag"] is not None else [])
        deps[idx] = {producer[e[1]] for e in es if e[0] == "v" and e[1] in producer}
        for o in s["out"]:
            producer[o] = idx
    return deps


def descendants(deps: Dict[int, Set[int]]) -> Dict[int, Set[int]]:
    succ: Dict[int, Set[int]] = {i: set() for i in deps}
    for i, ds in deps.items():
        for d in ds:
            succ[d].add(i)
    out: Dict[int, Set[int]] = {}
    for i in sorted(deps, reverse=True):
        acc: Set[int] = set()
        for s in succ[i]:
            acc.add(s)
            acc |= out[s]
        out[i] = acc
    return out


def ancestors(deps: Dict[int, Set[int]]) -> Dict[int, Set[int]]:
    out: Dict[int, Set[int]] = {}
    for i in sorted(deps):
        acc: Set[int] = set()
        for d in deps[i]:
            acc.add(d)
            acc |= out[d]
        out[i] = acc
    return out


def gen_descendants(succ: Dict[Any, Set[Any]]) -> Dict[Any, Set[Any]]:
    """Descendant sets for an arbitrary DAG given as successor map."""
    out: Dict[Any, Set[Any]] = {}

    def go(n: Any) -> Set[Any]:
        if n in out:
            return out[n]
        acc: Set[Any] = set()
        for s in succ.get(n, ()):
            acc.add(s)
            acc |= go(s)
        out[n] = acc
        return acc

    for n in list(succ):
        go(n)
    return out


def ref_cprio(succ: Dict[Any, Set[Any]], prio: Dict[Any, int]) -> Dict[Any, int]:
    desc = gen_descendants(succ)
    return {n: prio.get(n, 0) + sum(prio.get(x, 0) for x in desc[n]) for n in succ}


def ref_select(nodes: Set[Any], succ: Dict[Any, Set[Any]], roots: Set[Any], R: Optional[list],
               X: Optional[list], T: Optional[list]) -> Any:
    """Documented closure: R and everything depending on R, minus X and dependants, restricted to T and
    the ancestors of T.  Returns the set of nodes, or the string 'ValueError'."""
    desc = gen_descendants(succ)
    S = set(nodes)
    if R is not None:
        if not set(R) <= roots:
            return "ValueError"
        S = set(R).union(*[desc[r] for r in R]) if R else set()
    if X is not None:
        S = S - (set(X).union(*[desc[x] for x in X]) if X else set())
    if T is not None:
        if not set(T) <= S:
            return "ValueError"
        anc: Set[Any] = set(T)
        # ancestors inside the induced graph G[S]
        pred: Dict[Any, Set[Any]] = {n: set() for n in S}
        for n in S:
            for m in succ.get(n, ()):
                if m in S:
                    pred[m].add(n)
        stack = list(T)
        while stack:
            n = stack.pop()
            for q in pred[n]:
                if q not in anc:
                    anc.add(q)
                    stack.append(q)
        S = anc
    return S
