"""Deterministic simulation with fault injection for mindee/tawazi (see /verif/DESIGN.md)."""
