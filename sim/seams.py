"""Seams between tawazi / asyncio / concurrent.futures and the simulator (no change to /repo needed).

install() must be called once per process, *before* tawazi is imported for the pool/wait seams to be
rename-proof (it also patches the names in already loaded tawazi modules as a fallback).
"""
from __future__ import annotations

import asyncio
import concurrent.futures as cf
import concurrent.futures.thread as cf_thread
import contextvars
import functools
import itertools
import logging
import selectors
import sys
import threading
from typing import Any, Callable, Dict, List, Optional

from . import core
from .core import SimAbort, SimLivelock

CUR_OP: contextvars.ContextVar = contextvars.ContextVar("sim_cur_op", default=None)

_real_wait = cf.wait
_real_TPE = cf_thread.ThreadPoolExecutor
_real_aio_wait = asyncio.wait
_real_Lock_type = type(threading.Lock())
_real_RLock_type = type(threading.RLock())

INSTALLED: Dict[str, Any] = {}


class Runtime:
    """Per-run mutable state shared by the seams, the generated node bodies and the harness."""

    def __init__(self, sim: core.Sim, salt: int = 0) -> None:
        self.sim = sim
        self.salt = salt
        self.pools: List["SimPool"] = []
        self.n_tokens = 0
        self.pools_by_tok: Dict[int, List["SimPool"]] = {}
        self.tok_by_task: Dict[Any, int] = {}
        self.tok_by_thread: Dict[int, int] = {}
        self.tok_op: Dict[int, Any] = {}
        self.open_waits: Dict[int, dict] = {}      # token -> open wait record
        self.loops: List["SimLoop"] = []
        self.loop_part: Dict[int, Any] = {}        # id(loop) -> participant hosting it
        self.fseq = itertools.count(1)
        self.tseq = itertools.count(1)
        self.loop_exc: List[str] = []
        self.body_hook: Optional[Callable[..., None]] = None
        self.probes: Dict[str, int] = {}
        self.max_branch = 0
        self.livelock: Optional[str] = None
        self.lock_stats = {"acquire": 0, "contended": 0}

    def probe(self, name: str, n: int = 1) -> None:
        self.probes[name] = self.probes.get(name, 0) + n

    def cur_token(self) -> Optional[int]:
        tok = getattr(self.sim.tls, "token", None)
        if tok is not None:
            return tok
        try:
            t = asyncio.current_task()
        except RuntimeError:
            t = None
        if t is not None and t in self.tok_by_task:
            tok = self.tok_by_task[t]
        else:
            tok = self.tok_by_thread.get(threading.get_ident())
        if tok is not None and self.tok_op.get(tok) != CUR_OP.get():
            return None   # left over from an earlier operation of this thread / task
        return tok

    def token_for_scheduler(self, pool: Any = None) -> Optional[int]:
        """Token of the scheduler run the current task belongs to; a task that uses a pool created by an EARLIER run
        (pool cached across calls) starts a new execution here."""
        tok = self.cur_token()
        if tok is not None:
            return tok
        try:
            t = asyncio.current_task()
        except RuntimeError:
            t = None
        if t is None:
            return None
        tok = self.n_tokens
        self.n_tokens += 1
        self.tok_by_task[t] = tok
        self.tok_op[tok] = CUR_OP.get()
        if pool is not None:
            self.pools_by_tok.setdefault(tok, []).append(pool)
        me = self.sim.me()
        self.sim.ev("exec_begin", tok, CUR_OP.get(), getattr(pool, "max_workers", None), me.name if me else None)
        self.probe("execution_on_reused_pool")
        return tok


RT: Optional[Runtime] = None


def set_runtime(rt: Optional[Runtime]) -> None:
    global RT
    RT = rt
    core.set_current_sim(rt.sim if rt is not None else None)


def _sim_active() -> bool:
    return RT is not None and RT.sim.me() is not None


def node_of(fn: Any) -> Optional[str]:
    """Node id behind a callable handed to the pool (bound ExecNode.execute, possibly in partials)."""
    seen = 0
    while isinstance(fn, functools.partial) and seen < 6:
        seen += 1
        cand = None
        for a in fn.args:
            if getattr(getattr(a, "__self__", None), "id", None) is not None or isinstance(a, functools.partial):
                cand = a
                break
        fn = cand if cand is not None else fn.func
    owner = getattr(fn, "__self__", None)
    nid = getattr(owner, "id", None)
    return nid if isinstance(nid, str) else None


def node_behind(fn: Any, args: tuple = ()) -> Any:
    """The ExecNode whose bound `execute` is somewhere in a callable handed to the pool: the callable itself, a chain of
    functools.partial objects, or one of the positional arguments (e.g. `ctx.run, partial(xn.execute, ...)`)."""
    todo = [fn] + list(args)
    seen = 0
    while todo and seen < 12:
        seen += 1
        x = todo.pop(0)
        if isinstance(x, functools.partial):
            todo = [x.func] + list(x.args) + todo
            continue
        owner = getattr(x, "__self__", None)
        if owner is not None and isinstance(getattr(owner, "id", None), str) and hasattr(owner, "resource"):
            return owner
    return None


# ------------------------------------------------------------------------------- pool seam
class SimFuture(cf.Future):
    def __init__(self) -> None:
        super().__init__()
        rt = RT
        self._seq = next(rt.fseq) if rt is not None else id(self)
        self._h = hash((rt.salt if rt is not None else 0, self._seq))
        self.nid: Optional[str] = None

    def __hash__(self) -> int:
        return self._h


class SimPool(cf.Executor):
    def __init__(self, max_workers: Optional[int] = None, *a: Any, **kw: Any) -> None:
        if not _sim_active():
            self._real = _real_TPE(max_workers, *a, **kw)
            return
        self._real = None
        rt = RT
        self.rt = rt
        self.max_workers = max_workers or 1
        self._max_workers = self.max_workers     # attributes of the real ThreadPoolExecutor that callers sometimes peek at
        self._shutdown = False
        self._threads: set = set()
        self.items: List[dict] = []
        self.running = 0
        rt.pools.append(self)
        self.closed = False
        try:
            task = asyncio.current_task()
        except RuntimeError:
            task = None
        # an execution token identifies one scheduler run; a second pool created by the same scheduler run (same task,
        # earlier pool still open) joins that execution so that in-flight counts are per execution, not per pool
        # ... and so does the first pool of a scheduler run that has already produced events (pool created lazily, after
        # nodes were run inline): the execution began with its first event, not with its pool
        prev = rt.tok_by_task.get(task) if task is not None else rt.tok_by_thread.get(threading.get_ident())
        prev_pools = rt.pools_by_tok.get(prev, []) if prev is not None else []
        if prev is not None and rt.tok_op.get(prev) == CUR_OP.get() and (not prev_pools or any(not q.closed for q in prev_pools)):
            self.token = prev
            joined = True
        else:
            self.token = rt.n_tokens
            rt.n_tokens += 1
            joined = False
        rt.pools_by_tok.setdefault(self.token, []).append(self)
        if task is not None:
            rt.tok_by_task[task] = self.token
        else:
            rt.tok_by_thread[threading.get_ident()] = self.token
        self.owner = rt.sim.me()
        rt.tok_op[self.token] = CUR_OP.get()
        try:
            loop = asyncio.get_running_loop()
        except RuntimeError:
            loop = None
        self.loop_id = id(loop) if loop is not None else None
        if joined:
            rt.sim.ev("pool_joined", self.token, self.max_workers)
            rt.probe("extra_pool_in_execution")
        else:
            rt.sim.ev("exec_begin", self.token, CUR_OP.get(), self.max_workers, self.owner.name)

    def submit(self, fn: Callable[..., Any], /, *a: Any, **k: Any) -> cf.Future:  # type: ignore[override]
        if self._real is not None:
            return self._real.submit(fn, *a, **k)
        rt, sim, pool = self.rt, self.rt.sim, self
        if self.closed:
            raise RuntimeError("cannot schedule new futures after shutdown")
        f = SimFuture()
        owner_ = node_behind(fn, a)
        nid = owner_.id if owner_ is not None else node_of(fn)
        f.nid = nid
        # the node's own resource says whether it is an async-thread node (how the callable is wrapped is internal)
        res_ = getattr(getattr(owner_, "resource", None), "name", None) if owner_ is not None else None
        is_async = (res_ == "async_thread") if res_ is not None else isinstance(fn, functools.partial)
        tok = rt.token_for_scheduler(self)
        if tok is None:
            tok = self.token
        item = {"f": f, "started": False, "nid": nid, "tok": tok}
        self.items.append(item)
        unfinished = sum(1 for q in rt.pools_by_tok.get(tok, [self]) for it in q.items if not it["f"].done() and it.get("tok", tok) == tok)
        queued = sum(1 for it in self.items if not it["started"]) - 1
        if queued > 0:
            rt.probe("pool_queue_nonempty")
        sim.ev("submit", tok, nid, "async" if is_async else "thread", unfinished)

        def body() -> None:
            if any(not it["started"] and not it["f"].cancelled() for it in pool.items[:pool.items.index(item)]):
                rt.probe("F4_delayed_start_overtaken")
            item["started"] = True
            pool.running += 1
            sim.tls.token = tok
            sim.ev("start", tok, nid, bool(item.get("queued")))
            if not f.set_running_or_notify_cancel():
                pool.running -= 1
                sim.ev("cancelled", tok, nid)
                return
            try:
                r = fn(*a, **k)
            except SimAbort:
                raise
            except BaseException as e:  # noqa: BLE001 - like the real worker
                pool.running -= 1
                f.set_exception(e)
            else:
                pool.running -= 1
                f.set_result(r)

        def can_start() -> bool:
            if f.cancelled():
                return True
            free = pool.max_workers - pool.running
            if free <= 0:
                item["queued"] = True   # held back by the pool itself: every worker is busy
                return False
            n = 0
            for it in pool.items:
                if not it["started"] and not it["f"].cancelled():
                    if it is item:
                        return True
                    n += 1
                    if n >= free:
                        return False
            return False

        sim.spawn(f"x{tok}/{nid}", "item", body, pred=can_start, info=("start", tok, nid))
        sim.yield_("submit", info=("submit", tok, nid))
        return f

    def shutdown(self, wait: bool = True, *, cancel_futures: bool = False) -> None:
        if self._real is not None:
            return self._real.shutdown(wait, cancel_futures=cancel_futures)
        if self.rt.sim.me() is None:
            # called from a thread the simulator does not schedule (asyncio's shutdown_default_executor helper thread when the
            # code under test installed this pool as the loop's default executor): no event, no yield - it must not race
            self.closed = True
            self._shutdown = True
            return
        self.rt.sim.ev("exec_end", self.token)
        self.closed = True
        self._shutdown = True
        if wait:
            self.rt.sim.yield_("pool-shutdown", pred=lambda: all(it["f"].done() for it in self.items),
                               info=("pool-shutdown", self.token))


def _note_starved(rt: Any, tok: Any) -> None:
    """Ground truth for C08: a submitted node that cannot start because every worker of its pool is busy, at the moment the
    scheduler parks.  Never happens when the pool has as many workers as the scheduler may have nodes in flight."""
    if tok is None:
        return
    for q in rt.pools_by_tok.get(tok, []):
        if q.closed or q.max_workers - q.running > 0:
            continue
        nids = sorted(it["nid"] or "" for it in q.items
                      if not it["started"] and not it["f"].cancelled() and it.get("tok", tok) == tok)
        if nids:
            rt.sim.ev("pool_starved", tok, nids, q.max_workers, q.running)


def sim_wait(fs: Any, timeout: Optional[float] = None, return_when: str = cf.ALL_COMPLETED) -> Any:
    if not _sim_active():
        return _real_wait(fs, timeout, return_when)
    rt, sim = RT, RT.sim
    fs = list(fs)
    tok = rt.cur_token()
    if return_when == cf.FIRST_COMPLETED:
        pred = lambda: any(f.done() for f in fs)  # noqa: E731
    elif return_when == cf.FIRST_EXCEPTION:
        pred = lambda: all(f.done() for f in fs) or any(  # noqa: E731
            f.done() and not f.cancelled() and f.exception() is not None for f in fs)
    else:
        pred = lambda: all(f.done() for f in fs)  # noqa: E731
    blocked = bool(fs) and not pred()
    nids = sorted((getattr(f, "nid", None) or "") for f in fs)
    if blocked:
        _note_starved(rt, tok)
    i = sim.ev("wait", tok, "conc", nids, return_when, blocked)
    if tok is not None:
        rt.open_waits[tok] = {"kind": "conc", "fs": fs, "rw": return_when, "ev": i,
                              "part": sim.me(), "done0": {id(f) for f in fs if f.done()}}
    if fs:
        # a timeout is honoured on the virtual clock (which only advances when nothing else can run)
        sim.yield_("wait", pred=pred, info=("wait", tok), deadline=(sim.now + timeout) if timeout is not None else None)
    r = _real_wait(fs, 0, return_when)
    rt.open_waits.pop(tok, None)
    done_ids = [getattr(f, "nid", None) for f in r.done]
    if len(done_ids) >= 2:
        rt.probe("multi_done_one_wait")
    sim.ev("wait_ret", tok, "conc", sorted(x or "" for x in done_ids), sorted(x or "" for x in done_ids))
    return r


async def sim_aio_wait(fs: Any, *, timeout: Optional[float] = None, return_when: str = asyncio.ALL_COMPLETED) -> Any:
    if not _sim_active():
        return await _real_aio_wait(fs, timeout=timeout, return_when=return_when)
    rt, sim = RT, RT.sim
    fs = list(fs)
    tok = rt.cur_token()
    nids = sorted((getattr(f, "nid", None) or "") for f in fs)
    tracked = tok is not None and any(nids)
    if not tracked:
        return await _real_aio_wait(fs, timeout=timeout, return_when=return_when)
    if return_when == asyncio.FIRST_COMPLETED:
        blocked = not any(f.done() for f in fs)
    else:
        blocked = not all(f.done() for f in fs)
    if blocked:
        _note_starved(rt, tok)
    i = sim.ev("wait", tok, "async", nids, return_when, blocked)
    rt.open_waits[tok] = {"kind": "async", "fs": fs, "rw": return_when, "ev": i,
                          "part": sim.me(), "done0": {id(f) for f in fs if f.done()}}
    try:
        done, pend = await _real_aio_wait(fs, timeout=timeout, return_when=return_when)
    finally:
        rt.open_waits.pop(tok, None)
    done_ids = [getattr(f, "nid", None) for f in done]
    if len(done_ids) >= 2:
        rt.probe("multi_done_one_wait")
    sim.ev("wait_ret", tok, "async", sorted(x or "" for x in done_ids), sorted(x or "" for x in done_ids))
    return done, pend


# ------------------------------------------------------------------------------- loop seam
class SimSelector:
    def __init__(self, real: Any, loop: "SimLoop") -> None:
        self.real, self.loop = real, loop

    def select(self, timeout: Optional[float] = None) -> Any:
        if _sim_active():
            sim, loop = RT.sim, self.loop
            RT.loop_part[id(loop)] = sim.me()
            if timeout is None:
                sim.yield_("loop-idle", pred=lambda: bool(loop._ready) or loop._stopping, info=("loop-idle", id(loop)))
            elif timeout > 0:
                sim.yield_("loop-timer", pred=lambda: bool(loop._ready) or loop._stopping,
                           deadline=sim.now + timeout, info=("loop-idle", id(loop)))
            else:
                sim.yield_("loop-iter", info=("loop-iter", id(loop)))
            timeout = 0
        return self.real.select(timeout)

    def __getattr__(self, n: str) -> Any:
        return getattr(self.real, n)


class SimTask(asyncio.Task):  # type: ignore[type-arg]
    def __new__(cls, *a: Any, **k: Any) -> "SimTask":
        o = super().__new__(cls, *a, **k)
        rt = RT
        o._simh = hash((rt.salt if rt is not None else 0, next(rt.tseq))) if rt is not None else id(o)
        o.nid = None
        return o

    def __hash__(self) -> int:
        return self._simh


def _task_factory(loop: Any, coro: Any, **kw: Any) -> Any:
    rt = RT
    name = None
    if rt is not None:
        name = f"simtask-{len(rt.tok_by_task)}-{rt.probes.get('tasks', 0)}"
        rt.probe("tasks")
    t = SimTask(coro, loop=loop, name=name, **{k: v for k, v in kw.items() if k != "name"})
    if rt is None or not _sim_active():
        return t
    # a task created from inside a scheduler task whose coroutine carries an ExecNode.execute is the
    # dispatch decision of an async-thread node
    try:
        parent = asyncio.current_task()
    except RuntimeError:
        parent = None
    tok = rt.tok_by_task.get(parent) if parent is not None else None
    if tok is not None:
        rt.tok_by_task[t] = tok   # tasks spawned by a scheduler run belong to that execution
    frame = getattr(coro, "cr_frame", None)
    if tok is not None and frame is not None:
        nid = None
        for v in frame.f_locals.values():
            nid = node_of(v)
            if nid is not None:
                break
        if nid is not None:
            t.nid = nid
            rt.sim.ev("dispatch_async", tok, nid)
    return t


class SimAioFuture(asyncio.Future):  # type: ignore[type-arg]
    """asyncio futures created through the loop (wrap_future, run_in_executor) get a deterministic hash as well."""

    def __new__(cls, *a: Any, **k: Any) -> "SimAioFuture":
        o = super().__new__(cls, *a, **k)
        rt = RT
        o._simh = hash((rt.salt if rt is not None else 0, 1, next(rt.tseq))) if rt is not None else id(o)
        o.nid = None
        return o

    def __hash__(self) -> int:
        return self._simh


_real_wrap_future = asyncio.futures.wrap_future


def sim_wrap_future(future: Any, *, loop: Any = None) -> Any:
    new = _real_wrap_future(future, loop=loop)
    nid = getattr(future, "nid", None)
    if nid is not None:
        try:
            new.nid = nid   # keeps a pool future observable when the scheduler waits for it through asyncio
        except AttributeError:
            pass
    return new


class SimLoop(asyncio.SelectorEventLoop):
    def __init__(self) -> None:
        super().__init__(selectors.SelectSelector())
        self._selector = SimSelector(self._selector, self)
        self.set_task_factory(_task_factory)
        self.set_exception_handler(self._record_exc)
        if RT is not None:
            RT.loops.append(self)

    @staticmethod
    def _record_exc(loop: Any, context: dict) -> None:
        if RT is not None:
            RT.loop_exc.append(str(context.get("message")))

    def time(self) -> float:
        if _sim_active():
            return RT.sim.now
        return super().time()

    def create_future(self) -> Any:
        if RT is not None:
            return SimAioFuture(loop=self)
        return super().create_future()


class SimPolicy(asyncio.DefaultEventLoopPolicy):
    def new_event_loop(self) -> asyncio.AbstractEventLoop:
        return SimLoop()


# ------------------------------------------------------------------------------- lock seam
class SimLock:
    """Replaces module-level threading.Lock / RLock objects of tawazi (re-entrant iff it replaces an RLock)."""

    def __init__(self, reentrant: bool = False) -> None:
        self._owner: Any = None
        self._count = 0
        self._reentrant = reentrant
        self._real = threading.RLock() if reentrant else threading.Lock()

    def locked(self) -> bool:
        return self._owner is not None

    def acquire(self, blocking: bool = True, timeout: float = -1) -> bool:
        if _sim_active():
            rt, sim = RT, RT.sim
            me = sim.me()
            if self._reentrant and self._owner is me:
                self._count += 1
                return True
            rt.lock_stats["acquire"] += 1
            if self._owner is not None:
                rt.lock_stats["contended"] += 1
                rt.probe("lock_contended")
                if not blocking:
                    return False
            sim.yield_("lock-acquire", pred=lambda: self._owner is None, info=("lock",))
            self._owner = me or True
            self._count = 1
            sim.ev("lock_acquired", me.name if me else None)
            return True
        ok = self._real.acquire(blocking, timeout)
        if ok:
            self._owner = True
            self._count += 1
        return ok

    def release(self) -> None:
        if _sim_active():
            self._count -= 1
            if self._reentrant and self._count > 0:
                return
            self._owner = None
            RT.sim.ev("lock_released", RT.sim.me().name)
            RT.sim.yield_("lock-release", info=("lock",))
            return
        self._count = max(0, self._count - 1)
        if self._count == 0:
            self._owner = None
        try:
            self._real.release()
        except RuntimeError:
            pass

    def __enter__(self) -> bool:
        return self.acquire()

    def __exit__(self, *a: Any) -> None:
        self.release()


# ------------------------------------------------------------------------------- install
def install_pre() -> None:
    """Before `import tawazi`: whoever binds these names gets the simulated objects."""
    if "pre" in INSTALLED:
        return
    if "tawazi" in sys.modules:
        INSTALLED["late"] = True
    # futures created directly by the code under test (concurrent.futures.Future()) get the deterministic hash too
    cf.Future = SimFuture  # type: ignore[misc,assignment]
    cf._base.Future = SimFuture  # type: ignore[attr-defined,misc]
    cf.ThreadPoolExecutor = SimPool  # type: ignore[misc,assignment]
    cf_thread.ThreadPoolExecutor = SimPool  # type: ignore[misc,assignment]
    cf.wait = sim_wait  # type: ignore[assignment]
    cf._base.wait = sim_wait  # type: ignore[attr-defined]
    asyncio.wait = sim_aio_wait  # type: ignore[assignment]
    asyncio.tasks.wait = sim_aio_wait  # type: ignore[assignment]
    asyncio.futures.wrap_future = sim_wrap_future  # type: ignore[assignment]
    asyncio.wrap_future = sim_wrap_future  # type: ignore[assignment]
    asyncio.base_events.futures.wrap_future = sim_wrap_future  # type: ignore[attr-defined]
    asyncio.set_event_loop_policy(SimPolicy())
    logging.getLogger("concurrent.futures").setLevel(logging.CRITICAL)
    logging.getLogger("asyncio").setLevel(logging.CRITICAL)
    INSTALLED["pre"] = True


def install_post() -> Dict[str, Any]:
    """After `import tawazi`: lock, node entry/exit wrapper, retirement probe, name fallbacks."""
    if "post" in INSTALLED:
        return INSTALLED
    import tawazi  # noqa: F401

    report: Dict[str, Any] = {"locks": [], "names": [], "execute": False, "retire": False}
    mods = [(n, m) for n, m in list(sys.modules.items()) if n.split(".")[0] == "tawazi" and m is not None]
    # fallback for the pool / wait names when they were bound before install_pre
    for n, m in mods:
        for k, v in list(vars(m).items()):
            if v is _real_TPE:
                setattr(m, k, SimPool)
                report["names"].append(f"{n}.{k}")
            elif v is _real_wait:
                setattr(m, k, sim_wait)
                report["names"].append(f"{n}.{k}")
            elif v is _real_aio_wait:
                setattr(m, k, sim_aio_wait)
                report["names"].append(f"{n}.{k}")
    # module-level locks -> one SimLock per distinct lock object
    repl: Dict[int, SimLock] = {}
    for n, m in mods:
        for k, v in list(vars(m).items()):
            if isinstance(v, (_real_Lock_type, _real_RLock_type)):
                sl = repl.setdefault(id(v), SimLock(reentrant=isinstance(v, _real_RLock_type)))
                setattr(m, k, sl)
                report["locks"].append(f"{n}.{k}")
    # node entry / exit
    try:
        from tawazi.node.node import ExecNode
        orig = ExecNode.execute

        @functools.wraps(orig)
        def execute(self: Any, *a: Any, **k: Any) -> Any:
            rt = RT
            if rt is None or rt.sim.me() is None:
                return orig(self, *a, **k)
            sim = rt.sim
            tok = getattr(sim.tls, "token", None)
            inline = tok is None
            if inline:
                tok = rt.token_for_scheduler()
            prev = getattr(sim.tls, "cur_node", None)
            sim.tls.cur_node = (tok, self.id)
            sim.ev("enter", tok, self.id, sim.me().name, inline)
            try:
                r = orig(self, *a, **k)
            except SimAbort:
                raise
            except BaseException as e:
                sim.ev("exit", tok, self.id, "exc", type(e).__name__)
                raise
            finally:
                sim.tls.cur_node = prev
            sim.ev("exit", tok, self.id, "ok", None)
            return r

        ExecNode.execute = execute  # type: ignore[method-assign]
        report["execute"] = True
    except Exception as e:  # pragma: no cover
        report["execute_error"] = repr(e)
    # retirement probe (optional)
    try:
        from tawazi._dag.digraph import DiGraphEx
        orr = DiGraphEx.remove_root_node

        @functools.wraps(orr)
        def remove_root_node(self: Any, nid: Any) -> Any:
            rt = RT
            if rt is not None and rt.sim.me() is not None:
                # (a scheduler may prune nodes before it has created its pool: the execution begins with its first event)
                rt.sim.ev("retire", rt.token_for_scheduler(), nid)
            return orr(self, nid)

        DiGraphEx.remove_root_node = remove_root_node  # type: ignore[method-assign]
        report["retire"] = True
    except Exception as e:  # pragma: no cover
        report["retire_error"] = repr(e)
    INSTALLED["post"] = True
    INSTALLED.update(report)
    return INSTALLED


# ------------------------------------------------------------------------------- monitors
_MON_WATCH = 4
_MON_LINE = 3
_watch = {"n": 0, "cap": 0, "on": False, "max": 0}
_line = {"n": 0, "armed": set(), "on": False, "taken": 0, "root": ""}


def tawazi_code_objects() -> List[Any]:
    out = []
    seen = set()

    def walk(co: Any) -> None:
        if id(co) in seen:
            return
        seen.add(id(co))
        out.append(co)
        for c in co.co_consts:
            if hasattr(c, "co_code"):
                walk(c)

    for n, m in list(sys.modules.items()):
        if n.split(".")[0] != "tawazi" or m is None:
            continue
        for v in list(vars(m).values()):
            fn = getattr(v, "__func__", v)
            co = getattr(fn, "__code__", None)
            if co is not None and "tawazi" in co.co_filename:
                walk(co)
            if isinstance(v, type):
                for w in list(vars(v).values()):
                    fn = getattr(w, "__func__", w)
                    fn = getattr(fn, "fget", fn)
                    co = getattr(fn, "__code__", None)
                    if co is not None and "tawazi" in co.co_filename:
                        walk(co)
    return out


def enable_watchdog(cap: int) -> None:
    """Count tawazi control-flow events between two simulator yields; above cap raise SimLivelock."""
    mon = sys.monitoring
    _watch["cap"] = cap
    _watch["n"] = 0
    if _watch["on"]:
        return
    mon.use_tool_id(_MON_WATCH, "sim-watchdog")

    def on_branch(code: Any, src: int, dst: int) -> None:
        _watch["n"] += 1
        if _watch["n"] > _watch["cap"] and RT is not None and not RT.sim.abort and RT.sim.me() is not None:
            n = _watch["n"]
            _watch["n"] = 0
            msg = f"{n} tawazi branch events without a yield in {code.co_name}"
            if RT.livelock is None:
                RT.livelock = msg   # recorded here: the exception itself may be swallowed on its way up (asyncio.gather)
            raise SimLivelock(msg)

    mon.register_callback(_MON_WATCH, mon.events.JUMP, on_branch)
    mon.register_callback(_MON_WATCH, mon.events.BRANCH, on_branch)
    for co in tawazi_code_objects():
        mon.set_local_events(_MON_WATCH, co, mon.events.JUMP | mon.events.BRANCH)
    _watch["on"] = True


def watchdog_reset() -> int:
    n = _watch["n"]
    if n > _watch["max"]:
        _watch["max"] = n
    _watch["n"] = 0
    return n


def enable_line_preemption(root: str) -> None:
    """LINE events on tawazi code objects only: a client thread can be pre-empted between two tawazi source lines."""
    mon = sys.monitoring
    _line["root"] = root
    if _line["on"]:
        return
    mon.use_tool_id(_MON_LINE, "sim-preempt")

    def on_line(code: Any, line: int) -> Any:
        rt = RT
        if rt is None:
            return None
        p = rt.sim.me()
        if p is None or p.kind != "client" or rt.sim.abort:
            return None
        _line["n"] += 1
        if _line["n"] in _line["armed"]:
            _line["taken"] += 1
            rt.probe("line_preemptions")
            rt.sim.yield_(f"preempt@{code.co_filename.rsplit('/', 1)[-1]}:{line}")
        return None

    mon.register_callback(_MON_LINE, mon.events.LINE, on_line)
    for co in tawazi_code_objects():
        mon.set_local_events(_MON_LINE, co, mon.events.LINE)
    _line["on"] = True


def arm_lines(points: set) -> None:
    _line["n"] = 0
    _line["armed"] = set(points)
