"""History model: walks the operation list of a scenario with the reference models and produces, for
every operation, what the properties allow (expected value / error, executed set, arguments, graph)."""
from __future__ import annotations

import copy
from typing import Any, Dict, List, Optional, Set, Tuple

from .values import lit
from .ref import ABSENT, RefEval, RefUndefined, gen_descendants, ref_cprio, ref_select


def flat_graph(spec: dict, dname: str) -> dict:
    """Graph of a flat DAG in reference node names: ('s', idx) statements, ('p', i) parameters,
    ('k', idx, j) constant holders (every constant argument / flag of a statement is a graph root)."""
    dg = spec["dags"][dname]
    succ: Dict[Any, Set[Any]] = {}
    producer: Dict[str, Any] = {}
    for i, p in enumerate(dg["params"]):
        n = ("p", i)
        succ[n] = set()
        producer[p[0]] = n
    for idx, s in enumerate(dg["stmts"]):
        n = ("s", idx)
        succ[n] = set()
        es: List[list] = []
        if s["k"] == "call":
            es = list(s["args"]) + [e for _, e in s["kwargs"]] + ([s["flag"]] if s["flag"] is not None else [])
        elif s["k"] == "op":
            es = [s["a"], s["b"]]
        elif s["k"] == "uop":
            es = [s["a"]]
        elif s["k"] == "logic":
            es = list(s["args"])
        else:
            raise RefUndefined("flat_graph on nested program")
        for j, e in enumerate(es):
            if e[0] == "v":
                succ[producer[e[1]]].add(n)
            else:
                kn = ("k", idx, j)
                succ[kn] = {n}
        for o in s["out"]:
            producer[o] = n
    pred: Dict[Any, Set[Any]] = {n: set() for n in succ}
    for n, ss in succ.items():
        for m in ss:
            pred[m].add(n)
    roots = {n for n in succ if not pred[n]}
    return {"succ": succ, "pred": pred, "roots": roots, "nodes": set(succ)}


class InstanceState:
    def __init__(self, dname: str, mc: int, is_async: bool) -> None:
        self.dname = dname
        self.mc = mc
        self.is_async = is_async
        self.setup_memo: Dict[tuple, Any] = {}
        self.overrides: Dict[int, dict] = {}       # stmt idx -> {priority, is_sequential}
        self.composed: Optional[dict] = None        # {"inputs": [...], "outputs": [...], "single": bool}

    def clone(self) -> "InstanceState":
        c = InstanceState(self.dname, self.mc, self.is_async)
        c.setup_memo = dict(self.setup_memo)
        c.overrides = copy.deepcopy(self.overrides)
        c.composed = copy.deepcopy(self.composed)
        return c


class Expect:
    """What the reference says about one operation."""

    def __init__(self, kind: str) -> None:
        self.kind = kind               # value | raises | any | none
        self.value: Any = None
        self.raises: Tuple[str, ...] = ()
        self.exec_paths: Optional[Set[tuple]] = None    # paths of main nodes that must execute exactly once
        self.args: Dict[tuple, tuple] = {}
        self.status: Dict[tuple, str] = {}
        self.inst: Optional[str] = None
        self.mc: Optional[int] = None
        self.overrides: Dict[int, dict] = {}
        self.selected: Optional[Set[int]] = None         # top-level statement indices in the executed graph
        self.debug_on = False
        self.fault_paths: List[tuple] = []
        self.is_async = False
        self.setup_only = False
        self.setup_optional: Set[tuple] = set()
        self.note = ""


class HistoryModel:
    def __init__(self, scn: dict) -> None:
        self.scn = scn
        self.spec = scn["program"]
        self.ref = RefEval(self.spec)
        self.inst: Dict[str, InstanceState] = {}
        self.execs: Dict[str, dict] = {}
        self.caches: Dict[str, dict] = {}
        self._last_values: Dict[tuple, Any] = {}
        self.keys_seen: Dict[str, Any] = {}
        self.debug_on = bool(scn.get("debug_on", False))
        self.expect: Dict[tuple, Expect] = {}
        for b in scn.get("prebuild", []):
            self._register(b.get("env", "E"), b["dags"], b.get("flip_async", False))

    def _register(self, env: str, dnames: List[str], flip_async: bool = False) -> None:
        for dn in dnames:
            dg = self.spec["dags"][dn]
            self.inst[f"{env}:{dn}"] = InstanceState(dn, dg["mc"], dg["is_async"] != (flip_async and dn == self.spec["main"]))

    def alias_nodes(self, st: InstanceState, a: list) -> Any:
        """Reference node names an alias resolves to (list), or 'ValueError'."""
        dg = self.spec["dags"][st.dname]
        kind = a[0]
        if kind == "id":
            # documented: a string alias is looked up as a tag first ("highest priority in case an id with the same value exists")
            s_ = dg["stmts"][a[1]]
            if s_["k"] == "call":
                first = next(i for i, x in enumerate(dg["stmts"]) if x["k"] == "call" and x["fn"] == s_["fn"])
                if first == a[1]:
                    tagged = self._tagged(dg, s_["fn"])
                    if tagged:
                        return tagged
            return [("s", a[1])]
        if kind == "ref":
            return [("s", a[1])]
        if kind == "param":
            return [("p", a[1])]
        if kind == "tag":
            out = self._tagged(dg, a[1])
            if not out and a[1] in self.spec["funcs"]:
                # not a tag: a string alias then falls back to the node id (first call site of that function)
                first = [i for i, x in enumerate(dg["stmts"]) if x["k"] == "call" and x["fn"] == a[1]]
                if first:
                    return [("s", first[0])]
            return out if out else "ValueError"
        return "ValueError"   # raw unknown alias

    def _tagged(self, dg: dict, tag: str) -> list:
        out = []
        for idx, s in enumerate(dg["stmts"]):
            if s["k"] != "call":
                continue
            ft = self.spec["funcs"][s["fn"]]["tag"]
            tags = [s["tag"]] if s.get("tag") is not None else ([ft] if isinstance(ft, str) else list(ft or []))
            if tag in tags:
                out.append(("s", idx))
        return out

    def resolve(self, st: InstanceState, lst: Optional[list]) -> Any:
        if lst is None:
            return None
        out: List[Any] = []
        for a in lst:
            r = self.alias_nodes(st, a)
            if r == "ValueError":
                return "ValueError"
            out.extend(r)
        return out

    def select(self, st: InstanceState, sel: dict) -> Any:
        g = flat_graph(self.spec, st.dname)
        R, X, T = (self.resolve(st, sel.get(k)) for k in ("R", "X", "T"))
        if "ValueError" in (R, X, T):
            return "ValueError"
        if X is not None:
            S1 = ref_select(g["nodes"], g["succ"], g["roots"], R, None, None)
            if S1 != "ValueError" and not set(X) <= S1:
                return "Precondition"   # excluding a node that R already cut away: caller error left to the user (C12's precondition)
        S = ref_select(g["nodes"], g["succ"], g["roots"], R, X, T)
        return S

    # ------------------------------------------------------------------
    def run_all(self) -> Dict[tuple, Expect]:
        for c, ops in enumerate(self.scn["clients"]):
            for i, op in enumerate(ops):
                try:
                    self._op(c, i, op)
                except RefUndefined as e:
                    ex = Expect("any")
                    ex.note = f"ref-undefined: {e}"
                    self.expect[(c, i, 0)] = ex
        return self.expect

    def _faults_for(self, key: tuple) -> List[dict]:
        out = []
        for f in self.scn.get("faults", []):
            fop = f.get("op")
            if fop is None or list(key[:len(fop)]) == list(fop):
                out.append(f)
        return out

    def _call_expect(self, key: tuple, inst: str, args: List[Any], selected: Optional[Set[int]] = None) -> Expect:
        st = self.inst[inst]
        memo = dict(st.setup_memo)
        if st.composed is not None:
            return self._composed_expect(key, inst, args)
        r = self.ref.run(st.dname, args, setup_memo=memo, debug_on=self.debug_on, selected=selected)
        self._last_values = dict(r.values)
        ex = Expect("value")
        ex.value = r.ret
        ex.exec_paths = {p for p, s in r.status.items() if s in ("exec", "op")}
        ex.status = dict(r.status)
        ex.args = {p: (a, k) for p, _, a, k in r.calls}
        ex.inst, ex.mc, ex.overrides, ex.selected = inst, st.mc, copy.deepcopy(st.overrides), selected
        ex.debug_on, ex.is_async = self.debug_on, st.is_async
        faults = [f for f in self._faults_for(key) if tuple(tuple(x) for x in f["path"]) in ex.exec_paths]
        if faults:
            ex.kind = "raises"
            ex.raises = ("TawaziBaseException", "InjectedError", "InjectedBase", "InjectedTwoArgs")
            ex.fault_paths = [tuple(tuple(x) for x in f["path"]) for f in faults]
        else:
            st.setup_memo = memo
        # missing required arguments are a caller error
        dg = self.spec["dags"][st.dname]
        if len(args) < sum(1 for p in dg["params"] if not p[1]):
            ex.kind = "any"          # a required argument is missing: caller error, nothing about this execution is judged
            ex.exec_paths = None
            ex.note = "missing-argument"
        return ex

    def compose_need(self, st: InstanceState) -> Set[int]:
        """Statements of the original that a composed DAG contains: closure of the outputs stopping at the inputs."""
        comp = st.composed
        assert comp is not None
        g = flat_graph(self.spec, st.dname)
        need: Set[Any] = set()
        ins = set(comp["inputs"])

        def closure(n: Any) -> None:
            for q in g["pred"][n]:
                if q in ins or q in need:
                    continue
                need.add(q)
                closure(q)
        for o in comp["outputs"]:
            if o not in ins:
                need.add(o)
                closure(o)
        return {n[1] for n in need if n[0] == "s"}

    def _composed_expect(self, key: tuple, inst: str, args: List[Any]) -> Expect:
        st = self.inst[inst]
        comp = st.composed
        assert comp is not None
        dg = self.spec["dags"][st.dname]
        g = flat_graph(self.spec, st.dname)
        subst: Dict[str, Any] = {}
        pargs: Dict[int, Any] = {}
        for n, v in zip(comp["inputs"], args):
            if n[0] == "p":
                pargs[n[1]] = v
            else:
                for o in dg["stmts"][n[1]]["out"]:
                    subst[o] = v
        # closure of the outputs stopping at the inputs
        need: Set[Any] = set()
        ins = set(comp["inputs"])

        def closure(n: Any) -> None:
            for q in g["pred"][n]:
                if q in ins or q in need:
                    continue
                need.add(q)
                closure(q)
        for o in comp["outputs"]:
            if o not in ins:
                need.add(o)
                closure(o)
        selected = {n[1] for n in need if n[0] == "s"}
        call_args = [pargs.get(i, lit(p[2]) if p[1] else None) for i, p in enumerate(dg["params"])]
        memo = dict(st.setup_memo)
        r = self.ref.run(st.dname, call_args, setup_memo=memo, debug_on=self.debug_on, selected=selected, subst=subst)
        ex = Expect("value")
        vals = []
        for o in comp["outputs"]:
            if o[0] == "p":
                vals.append(call_args[o[1]])
            else:
                s = dg["stmts"][o[1]]
                if o in ins:
                    vals.append(subst[s["out"][0]])
                else:
                    vals.append(r.values.get(((st.dname, o[1]),)))
        ex.value = vals[0] if comp["single"] else tuple(vals)
        ex.exec_paths = {p for p, s in r.status.items() if s in ("exec", "op")}
        ex.status = dict(r.status)
        ex.args = {p: (a, k) for p, _, a, k in r.calls}
        ex.inst, ex.mc, ex.overrides, ex.selected = inst, st.mc, copy.deepcopy(st.overrides), selected
        ex.debug_on, ex.is_async = self.debug_on, st.is_async
        return ex

    def _eval_with_cache(self, st: InstanceState, info: dict, args: List[Any], selected: Any, memo: dict) -> Any:
        cache = self.caches[info["from_cache"]]
        dg = self.spec["dags"][st.dname]
        subst = {}
        for idx, val in cache["values"].items():
            s_ = dg["stmts"][idx]
            if s_["k"] == "call" and s_["unpack"]:
                for j, o in enumerate(s_["out"]):
                    subst[o] = val[j] if val is not None else None
            else:
                subst[s_["out"][0]] = val
        return self.ref.run(st.dname, args, setup_memo=memo, debug_on=self.debug_on, selected=selected, subst=subst)

    def _exrun(self, key: tuple, op: dict) -> None:
        info = self.execs.get(op["ex"])
        if info is None or info.get("invalid"):
            self.expect[key] = Expect("any")
            return
        if info["ran"]:
            ex = Expect("rerun")
            ex.inst = info["inst"]
            # C15.c: refuse, or run the complete selection from scratch
            alt = self._call_expect(key, info["inst"], [lit(a) for a in op["args"]],
                                    selected={n[1] for n in info["S"] if n[0] == "s"})
            ex.value, ex.exec_paths, ex.args, ex.status = alt.value, alt.exec_paths, alt.args, alt.status
            ex.mc, ex.overrides, ex.selected, ex.is_async = alt.mc, alt.overrides, alt.selected, alt.is_async
            if info.get("from_cache") and info["from_cache"] in self.caches and alt.exec_paths is not None and alt.kind == "value":
                # "from scratch" for an executor that starts from a cache file includes the cached results
                st_ = self.inst[info["inst"]]
                r2 = self._eval_with_cache(st_, info, [lit(a) for a in op["args"]], alt.selected, dict(st_.setup_memo))
                ex.value = r2.ret
                ex.exec_paths = {p for p, sname in r2.status.items() if sname in ("exec", "op")}
                ex.status = {p: ("memo" if sname == "input" else sname) for p, sname in r2.status.items()}
                ex.args = {p: (a, kw) for p, _, a, kw in r2.calls}
            self.expect[key] = ex
            return
        info["ran"] = True
        selected = {n[1] for n in info["S"] if n[0] == "s"}
        st = self.inst[info["inst"]]
        pre_memo = dict(st.setup_memo)
        ex = self._call_expect(key, info["inst"], [lit(a) for a in op["args"]], selected=selected)
        if info.get("from_cache") and info["from_cache"] in self.caches and ex.exec_paths is not None and ex.kind == "value":
            # cached results count as already computed: re-evaluate with the cached values substituted
            memo2 = dict(pre_memo)
            r2 = self._eval_with_cache(st, info, [lit(a) for a in op["args"]], selected, memo2)
            ex.value = r2.ret
            ex.exec_paths = {p for p, sname in r2.status.items() if sname in ("exec", "op")}
            ex.status = {p: ("memo" if sname == "input" else sname) for p, sname in r2.status.items()}
            ex.args = {p: (a, kw) for p, _, a, kw in r2.calls}
            st.setup_memo = memo2
        if info.get("cache_in") and ex.kind == "value":
            keys = {p[0][1] for p, sname in ex.status.items() if len(p) == 1 and sname in ("exec", "op", "deact", "memo")}
            if info.get("cache_deps_of") is not None:
                T = self.resolve(st, info["cache_deps_of"])
                keys -= {n[1] for n in T if n[0] == "s"}
            vals = {}
            for idx in keys:
                stt = ex.status.get(((st.dname, idx),))
                vals[idx] = None if stt == "deact" else self._last_values.get(((st.dname, idx),))
            self.caches[info["cache_in"]] = {"stmts": keys, "values": vals}
        if ex.kind == "raises":
            info["failed"] = True
        info["value"] = ex.value
        info["status"] = ex.status
        self.expect[key] = ex

    def _op(self, c: int, i: int, op: dict) -> None:
        k = op["op"]
        key = (c, i, 0)
        if k == "build":
            self._register(op.get("env", "E"), op["dags"], op.get("flip_async", False))
            # a DAG described after one of its inner DAGs was set up inherits those setup results (they are spliced in)
            env = op.get("env", "E")
            for dn in op["dags"]:
                st = self.inst[f"{env}:{dn}"]
                for idx, s_ in enumerate(self.spec["dags"][dn]["stmts"]):
                    if s_["k"] == "dag" and f"{env}:{s_['dag']}" in self.inst:
                        for p_in, val in self.inst[f"{env}:{s_['dag']}"].setup_memo.items():
                            st.setup_memo[((dn, idx),) + tuple(p_in)] = val
            ex = Expect("raises" if any(v == "raise" for ps in (op.get("pauses") or {}).values() for v in ps.values()) else "none")
            ex.raises = ("InjectedError",)
            if op.get("expect_raise"):
                ex = Expect("raises")
                ex.raises = tuple(op["expect_raise"])
            self.expect[key] = ex
        elif k == "call":
            if op["inst"] not in self.inst:
                self.expect[key] = Expect("any")   # e.g. a composition that was (rightly) refused
                return
            self.expect[key] = self._call_expect(key, op["inst"], [lit(a) for a in op["args"]])
        elif k == "executor":
            st = self.inst[op["inst"]]
            sel = op.get("sel") or {}
            info = {"inst": op["inst"], "sel": sel, "ran": False, "failed": False}
            if op.get("cache_deps_of") is not None:
                T = self.resolve(st, op["cache_deps_of"])
                S = "ValueError" if T == "ValueError" else self.select(st, {"T": op["cache_deps_of"]})
            else:
                S = self.select(st, sel)
            info["S"] = S
            info["cache_in"], info["from_cache"], info["cache_deps_of"] = op.get("cache_in"), op.get("from_cache"), op.get("cache_deps_of")
            self.execs[op["ex"]] = info
            if S == "Precondition":
                ex = Expect("any")
                info["invalid"] = True
            elif S == "ValueError":
                ex = Expect("raises")
                ex.raises = ("ValueError",)
                info["invalid"] = True
            else:
                ex = Expect("graph")
                ex.selected = {n[1] for n in S if n[0] == "s"}
                ex.inst = op["inst"]
                ex.debug_on = self.debug_on
            self.expect[key] = ex
        elif k == "exrun":
            self._exrun(key, op)
        elif k in ("setup", "exsetup"):
            if k == "exsetup":
                info = self.execs.get(op["ex"])
                if info is None or info.get("invalid"):
                    self.expect[key] = Expect("any")
                    return
                inst = info["inst"]
                sel = {kk: info["sel"].get(kk) for kk in ("T", "X")}  # root_nodes are not forwarded by executor.setup
            else:
                inst = op["inst"]
                sel = op.get("sel") or {}
            st = self.inst[inst]
            dg = self.spec["dags"][st.dname]
            setup_idx = {idx for idx, s in enumerate(dg["stmts"]) if s["k"] == "call" and self.spec["funcs"][s["fn"]]["setup"]}
            if sel.get("T") is None:
                sel = dict(sel)
                sel["T"] = [["ref", idx] for idx in sorted(setup_idx)]
                if not setup_idx:
                    sel["T"] = []
            S = self.select(st, sel)
            if S == "Precondition":
                self.expect[key] = Expect("any")
                return
            if S == "ValueError":
                ex = Expect("raises")
                ex.raises = ("ValueError",)
                self.expect[key] = ex
                return
            selected = {n[1] for n in S if n[0] == "s"} & setup_idx
            memo = dict(st.setup_memo)
            r = self.ref.run(st.dname, [None] * len(dg["params"]), setup_memo=memo, debug_on=self.debug_on, selected=selected)
            ex = Expect("value")
            ex.value = None
            ex.exec_paths = {p for p, s in r.status.items() if s == "exec"}
            ex.status = dict(r.status)
            ex.args = {p: (a, kw) for p, _, a, kw in r.calls}
            ex.inst, ex.mc, ex.overrides, ex.selected, ex.is_async = inst, st.mc, copy.deepcopy(st.overrides), selected, st.is_async
            ex.setup_only = True
            st.setup_memo = memo
            self.expect[key] = ex
        elif k == "deepcopy":
            self.inst[op["as"]] = self.inst[op["inst"]].clone()
            self.expect[key] = Expect("none")
        elif k == "config":
            st = self.inst[op["inst"]]
            conf = op["cfg"]
            bad = False
            seen: Set[int] = set()
            for a, v in conf.get("nodes", []):
                ns = self.alias_nodes(st, a)
                if ns == "ValueError":
                    bad = True
                    continue
                for n in ns:
                    if n[0] == "s":
                        if n[1] in seen:
                            bad = True
                        seen.add(n[1])
            if bad:
                ex = Expect("raises")
                ex.raises = ("ValueError",)
                self.expect[key] = ex
                return
            for a, v in conf.get("nodes", []):
                for n in self.alias_nodes(st, a):
                    if n[0] == "s":
                        st.overrides.setdefault(n[1], {}).update(v)
            if "max_concurrency" in conf:
                st.mc = conf["max_concurrency"]
            self.expect[key] = Expect("none")
        elif k == "compose":
            st = self.inst[op["inst"]]
            dg = self.spec["dags"][st.dname]
            g = flat_graph(self.spec, st.dname)
            if op["inputs"] == "...":
                ins: Any = [("p", j) for j in range(len(dg["params"]))]
            else:
                ins = []
                for a in op["inputs"]:
                    r = self.alias_nodes(st, a)
                    if r == "ValueError" or len(r) != 1:
                        ins = "ValueError"
                        break
                    ins.extend(r)
            outs: Any = []
            for a in op["outputs"]:
                r = self.alias_nodes(st, a)
                if r == "ValueError" or len(r) != 1:
                    outs = "ValueError"
                    break
                outs.extend(r)
            err = ins == "ValueError" or outs == "ValueError"
            if not err:
                desc = gen_descendants(g["succ"])
                anc_of_ins = {n for n in g["nodes"] if any(i in desc[n] for i in ins)}
                if any(i in anc_of_ins for i in ins):
                    err = True   # an input depends on another input
                need: Set[Any] = set()
                sins = set(ins)

                def closure(n: Any) -> None:
                    for q in g["pred"][n]:
                        if q in sins or q in need:
                            continue
                        need.add(q)
                        closure(q)
                for o in outs:
                    if o not in sins:
                        closure(o)
                missing = [n for n in need if n[0] == "p" and not dg["params"][n[1]][1]]
                if missing:
                    err = True
            if err:
                ex = Expect("raises")
                ex.raises = ("ValueError",)
                self.expect[key] = ex
                return
            ns = st.clone()
            ns.composed = {"inputs": ins, "outputs": outs, "single": bool(op.get("single"))}
            if op.get("is_async") is not None:
                ns.is_async = op["is_async"]
            ns.mc = op.get("mc") or 1
            self.inst[op["as"]] = ns
            self.expect[key] = Expect("none")
        elif k == "gather":
            pre = {cl["inst"]: set(self.inst[cl["inst"]].setup_memo) for cl in op["calls"] if cl.get("inst") in self.inst}
            for j, cl in enumerate(op["calls"]):
                kk = (c, i, j)
                if "ex" in cl:
                    # concurrent awaits of ONE executor object: the first is an ordinary run, every other one is a second run
                    # (refused, or the complete selection from scratch) - never a result of the partially consumed graph
                    self._exrun(kk, dict(ex=cl["ex"], args=cl["args"]))
                    continue
                ex = self._call_expect(kk, cl["inst"], [lit(a) for a in cl["args"]])
                if len(op["calls"]) > 1 and ex.status:
                    # concurrent first executions: a setup node recorded by a sibling await of the same gather may or may not
                    # run again in this one (its result is recorded once; the value is the same)
                    ex.setup_optional = {p_ for p_, s_ in ex.status.items() if s_ == "memo" and p_ not in pre.get(cl["inst"], set())}
                if op.get("cancel") and op["cancel"]["idx"] == j:
                    ex.kind = "any"
                    ex.note = "cancelled"
                    # setup memo must not be trusted after a cancelled call
                self.expect[kk] = ex
        elif k == "xn_outside":
            f = self.spec["funcs"][op["fn"]]
            from .values import F
            ex = Expect("value")
            ex.value = F(f["c"], f["ret"], tuple(lit(a) for a in op["args"]), {})
            self.expect[key] = ex
        elif k == "read_cache":
            ex = Expect("cachekeys" if op["file"] in self.caches else "any")
            if op["file"] in self.caches:
                ex.selected = set(self.caches[op["file"]]["stmts"])
                ex.inst = op["inst"]
            self.expect[key] = ex
        elif k == "results_keys":
            ex = Expect("reskeys")
            ex.inst = op["inst"]
            self.expect[key] = ex
        elif k == "snapshot":
            ex = Expect("snapshot")
            ex.inst = op["inst"]
            ex.note = op.get("same_as") or ""
            self.expect[key] = ex
        elif k == "cprio":
            ex = Expect("cprio")
            if "ex" in op:
                info = self.execs.get(op["ex"])
                if info is None or info.get("invalid"):
                    self.expect[key] = Expect("any")
                    return
                ex.inst = info["inst"]
                ex.selected = {n[1] for n in info["S"] if n[0] == "s"}
            else:
                ex.inst = op["inst"]
                if ex.inst not in self.inst:
                    self.expect[key] = Expect("any")
                    return
                if self.inst[ex.inst].composed is not None:
                    ex.selected = self.compose_need(self.inst[ex.inst])
                    ex.note = "composed"
            ex.overrides = copy.deepcopy(self.inst[ex.inst].overrides)
            self.expect[key] = ex
        elif k == "set_debug":
            self.debug_on = bool(op["value"])
            self.expect[key] = Expect("none")
        else:
            self.expect[key] = Expect("any")
