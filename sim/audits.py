"""Controller-side audits evaluated after every simulator step (they need the global view).

They only *record* marker events; the verdict is computed by oracles.analyse with the scheduler's view
at that position of the history, so that replay and shrinking see one single source of truth.

audit_block     (C08.b) a scheduler is parked in a wait seam, its wait condition is still false, and at
                least one of the futures it waits for has completed since the wait began.
audit_loopblock (C17.c) a participant hosting an event loop is parked in a *blocking* seam (futures wait /
                pool shutdown) rather than in the loop's own idle point.
"""
from __future__ import annotations

from typing import Any


def install(run: Any) -> None:
    sim, rt = run.sim, run.rt
    seen_block: set = set()
    seen_loop: set = set()

    def audit(_sim: Any) -> None:
        # C08.b
        for tok, rec in list(rt.open_waits.items()):
            part = rec["part"]
            if part is None or part.state != "blocked" or part.enabled():
                continue
            newly = [getattr(f, "nid", None) for f in rec["fs"] if f.done() and id(f) not in rec["done0"]]
            newly = sorted(x for x in newly if x)
            if not newly:
                continue
            key = (tok, rec["ev"], tuple(newly))
            if key in seen_block:
                continue
            seen_block.add(key)
            sim.ev("audit_block", tok, rec["kind"], newly, rec["rw"])
        # C17.c
        hosts = set(id(p) for p in rt.loop_part.values() if p is not None)
        for p in sim.parts:
            if p.state == "blocked" and id(p) in hosts and p.why in ("wait", "pool-shutdown") and not p.enabled():
                tok = p.info[1] if isinstance(p.info, tuple) and len(p.info) > 1 else None
                k2 = (p.idx, tok, p.why, rt.open_waits.get(tok, {}).get("ev"))
                if k2 in seen_loop:
                    continue
                seen_loop.add(k2)
                sim.ev("audit_loopblock", tok, p.why, p.name)

    sim.audits.append(audit)
