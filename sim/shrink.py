"""Minimisation of a failing (P record, schedule) pair.  A weaker shrinker costs readability of the replay,
never soundness: every accepted candidate is a real failing execution of the same clause."""
from __future__ import annotations

import time
from typing import Any, Callable, List, Optional, Tuple

from . import runner
from .props import Prop


def same_class(findings: List[dict], target: List[str]) -> Optional[dict]:
    for f in findings:
        if f["sig"] == target:
            return f
    for f in findings:
        # same clause and at least the tags of the original (tags are computed from the violation event itself)
        if f["clause"] == target[0] and set(target[1:]) <= set(f["sig"][1:]):
            return f
    return None


def shrink(prop: Prop, record: List[int], schedule: List[int], target: List[str], salt: int = 0,
           budget: int = 1500, wall: float = 60.0) -> Tuple[dict, List[int], List[int], dict, int]:
    """Returns (scenario, record, schedule, finding, candidates tried)."""
    t0 = time.time()
    tried = [0]

    def attempt(rec: List[int], sched: Optional[List[int]]) -> Optional[Tuple[dict, List[int], dict, List[int]]]:
        if tried[0] >= budget or time.time() - t0 > wall:
            return None
        tried[0] += 1
        try:
            scn, rec2 = runner.gen_scenario(prop, 0, record=rec)
        except Exception:
            return None
        cands: List[Any] = [("replay", sched)] if sched is not None else []
        cands += [("seed", j) for j in range(4)]
        for kind, x in cands:
            try:
                if kind == "replay":
                    run, F, _ = runner.execute(prop, scn, schedule=x, salt=salt)
                else:
                    run, F, _ = runner.execute(prop, scn, strategy="uniform", sseed=f"shrink:{x}", salt=salt)
            except Exception:
                return None
            f = same_class(F, target)
            if f is not None and f["sig"][0] == target[0]:
                return scn, list(run.sim.schedule), f, rec2
        return None

    base = attempt(record, schedule)
    if base is None:
        raise RuntimeError("original failure does not reproduce under shrink harness")
    scn, schedule, finding, record = base

    def shrink_list(cur: List[int], test: Callable[[List[int]], bool]) -> List[int]:
        # truncate
        n = len(cur)
        while n > 0:
            cand = cur[: n // 2]
            if test(cand):
                cur = cand
                n = len(cur)
            else:
                break
        # delete blocks
        size = max(1, len(cur) // 2)
        while size >= 1:
            i = 0
            while i < len(cur):
                cand = cur[:i] + cur[i + size:]
                if test(cand):
                    cur = cand
                else:
                    i += size
            size //= 2
        # zero / halve values
        for i in range(len(cur)):
            if cur[i] != 0:
                for nv in (0, cur[i] // 2):
                    if nv == cur[i]:
                        continue
                    cand = cur[:i] + [nv] + cur[i + 1:]
                    if test(cand):
                        cur = cand
                        break
        return cur

    state = {"scn": scn, "sched": schedule, "finding": finding}

    def test_p(rec: List[int]) -> bool:
        r = attempt(rec, state["sched"])
        if r is None:
            return False
        state["scn"], state["sched"], state["finding"], _ = r
        return True

    record = shrink_list(record, test_p)
    # trailing zeros of P are equivalent to exhaustion
    while record and record[-1] == 0:
        record = record[:-1]
    r = attempt(record, state["sched"])
    if r is not None:
        state["scn"], state["sched"], state["finding"], _ = r

    def test_s(s: List[int]) -> bool:
        if tried[0] >= budget or time.time() - t0 > wall:
            return False
        tried[0] += 1
        try:
            run, F, _ = runner.execute(prop, state["scn"], schedule=s, salt=salt)
        except Exception:
            return False
        f = same_class(F, target)
        if f is not None and f["sig"][0] == target[0]:
            state["finding"] = f
            return True
        return False

    sched = shrink_list(list(state["sched"]), test_s)
    while sched and sched[-1] == 0:
        sched = sched[:-1]
    if test_s(sched):
        state["sched"] = sched
    return state["scn"], record, state["sched"], state["finding"], tried[0]
