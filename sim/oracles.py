"""Oracles: generic clauses evaluated over the recorded history of one simulated run.

Every finding is a dict {g: generic clause, tags: [...], msg, op, tok}.  The per-property checks map
generic clauses to their own clause labels (Cxx.a ...) and ignore the rest.
Ground-truth clauses (order, counts, overlap, threads) use ENTER/EXIT events; the scheduling clauses
(prio, idle) use the *scheduler's view* (what a wait has returned), which is what keeps them sound.
"""
from __future__ import annotations

import collections
from typing import Any, Dict, List, Optional, Set

from .gen import stmt_location
from .model import Expect
from .ref import ref_cprio
from .values import freeze


def viol(g: str, msg: str, op: Any = None, tok: Any = None, tags: Optional[List[str]] = None, **kw: Any) -> dict:
    d = {"g": g, "msg": msg, "op": list(op) if op is not None else None, "tok": tok, "tags": sorted(tags or [])}
    d.update(kw)
    return d


# ----------------------------------------------------------------------------- model graph in SUT ids
def model_graph(spec: dict, dname: str, table: Dict[str, dict], overrides: Dict[int, dict]) -> dict:
    funcs = spec["funcs"]
    main_of = {info["path"]: nid for nid, info in table.items() if info["role"] == "main"}
    stub_of = {(info["path"], info.get("pidx")): nid for nid, info in table.items() if info["role"] == "stub"}
    deps: Dict[str, Set[str]] = {}
    attrs: Dict[str, dict] = {}
    unmapped: List[tuple] = []

    def exprs(s: dict) -> List[list]:
        k = s["k"]
        if k == "call":
            return list(s["args"]) + [e for _, e in s["kwargs"]] + ([s["flag"]] if s["flag"] is not None else [])
        if k == "op":
            return [s["a"], s["b"]]
        if k == "uop":
            return [s["a"]]
        if k == "logic":
            return list(s["args"])
        return []

    def walk(dn: str, prefix: tuple, binding: Dict[str, Optional[str]], act_dep: Optional[str], top: bool) -> List[Optional[str]]:
        dg = spec["dags"][dn]
        env: Dict[str, Optional[str]] = dict(binding)

        def prod(e: list) -> Optional[str]:
            return env.get(e[1]) if e[0] == "v" else None

        for idx, s in enumerate(dg["stmts"]):
            path = prefix + ((dn, idx),)
            if s["k"] == "dag":
                flagp = prod(s["flag"]) if s["flag"] is not None else None
                inner = spec["dags"][s["dag"]]
                b: Dict[str, Optional[str]] = {}
                for j, p in enumerate(inner["params"]):
                    if j < len(s["args"]):
                        stub = stub_of.get((path, j))
                        if stub is None:
                            unmapped.append(path + (("stub", j),))
                            b[p[0]] = prod(s["args"][j])
                            continue
                        d = {prod(s["args"][j]), flagp, act_dep} - {None}
                        deps[stub] = d  # type: ignore[assignment]
                        attrs[stub] = dict(prio=0, seq=False, res="main_thread", role="stub", path=path, setup=False, debug=False)
                        b[p[0]] = stub
                    else:
                        b[p[0]] = None
                rets = walk(s["dag"], path, b, flagp if s["flag"] is not None else act_dep, False)
                for o, item in zip(s["out"], rets):
                    env[o] = item
                continue
            nid = main_of.get(path)
            d2 = {prod(e) for e in exprs(s)} - {None}
            is_call = s["k"] == "call"
            f = funcs[s["fn"]] if is_call else None
            if act_dep is not None and not (f and f["setup"]):
                d2.add(act_dep)
            if nid is None:
                unmapped.append(path)
                for o in s["out"]:
                    env[o] = None
                continue
            deps[nid] = d2  # type: ignore[assignment]
            if f is not None:
                a = dict(prio=f["priority"], seq=f["is_sequential"], res=f["resource"], role="main", path=path,
                         setup=f["setup"], debug=f["debug"])
                if top and idx in overrides:
                    ov = overrides[idx]
                    a["prio"] = ov.get("priority", a["prio"])
                    a["seq"] = ov.get("is_sequential", a["seq"])
            else:
                a = dict(prio=0, seq=False, res="thread", role="main", path=path, setup=False, debug=False)
                if top and idx in overrides:
                    ov = overrides[idx]
                    a["prio"] = ov.get("priority", a["prio"])
                    a["seq"] = ov.get("is_sequential", a["seq"])
            attrs[nid] = a
            for o in s["out"]:
                env[o] = nid
        return [prod(e) for e in dg["ret"]["items"]]

    walk(dname, (), {p[0]: None for p in spec["dags"][dname]["params"]}, None, True)
    succ: Dict[str, Set[str]] = {n: set() for n in deps}
    for n, ds in deps.items():
        for d in ds:
            succ.setdefault(d, set()).add(n)
    prio = {n: a["prio"] for n, a in attrs.items()}
    cp = ref_cprio(succ, prio)
    return {"deps": deps, "succ": succ, "attrs": attrs, "cp": cp, "unmapped": unmapped, "main_of": main_of}


# ----------------------------------------------------------------------------- per execution analysis
class ExecAnalysis:
    def __init__(self, run: Any, tok: int, opkey: tuple, ex: Optional[Expect], owner: str) -> None:
        self.run, self.tok, self.opkey, self.ex, self.owner = run, tok, opkey, ex, owner
        self.events: List[tuple] = []   # (seq, event)


def _is_a(out: dict, names: Any) -> bool:
    """The raised exception is an instance of one of the named classes (a subclass counts: which class of the documented
    family tawazi raises is not part of any property)."""
    exc = out.get("exc")
    mro = [c.__name__ for c in type(exc).__mro__] if isinstance(exc, BaseException) else [out.get("type")]
    return bool(set(mro) & set(names))


def _program_tags(spec: dict) -> List[str]:
    """Facts about the generated program (the input), used to pin known findings to the inputs they are about."""
    tags = []
    nested = set()
    for dg in spec["dags"].values():
        inner = [s_["dag"] for s_ in dg.get("stmts", []) if s_["k"] == "dag"]
        nested.update(inner)
        if len(inner) != len(set(inner)):
            tags.append("p4:same-inner-twice")
    for dn in nested:
        if any(e[0] == "c" for e in spec["dags"][dn]["ret"]["items"]):
            tags.append("p7:inner-returns-constant")
    return sorted(set(tags))


def analyse(run: Any, expects: Dict[tuple, Expect], retire_probe: bool = True) -> List[dict]:
    V: List[dict] = []
    scn, spec = run.scn, run.spec
    events = run.sim.events
    # ---- run-level termination (C09.a/b)
    if run.status == "deadlock":
        V.append(viol("deadlock", f"simulator deadlock: {run.detail}", tags=_deadlock_tags(run)))
    elif run.status == "livelock":
        V.append(viol("livelock", f"scheduler spins without reaching a yield: {run.detail}"))
    elif run.status == "stepcap":
        V.append(viol("livelock", f"step cap exceeded: {run.detail}", tags=["stepcap"]))
    V.extend(run.audit_violations)
    if run.build_error is not None:
        e = run.build_error
        V.append(viol("build_raise", f"building the program raised {type(e).__name__}: {str(e)[:300]}",
                      tags=["exc:" + type(e).__name__] + _program_tags(spec), exc_type=type(e).__name__, exc_msg=str(e)[:300]))
        return V

    # ---- split events by execution token
    toks: Dict[int, ExecAnalysis] = {}
    for seq, e in enumerate(events):
        k = e[0]
        if k == "exec_begin":
            opkey = tuple(e[2]) if e[2] is not None else None
            toks[e[1]] = ExecAnalysis(run, e[1], opkey, expects.get(opkey) if opkey else None, e[4])
            toks[e[1]].events.append((seq, e))
        elif k in ("submit", "dispatch_async", "start", "enter", "body", "exit", "wait", "wait_ret", "retire",
                   "exec_end", "cancelled", "audit_block", "audit_loopblock", "pool_starved", "fault"):
            t = e[1]
            if t in toks:
                toks[t].events.append((seq, e))
    op_end_seq: Dict[tuple, int] = {}
    for seq, e in enumerate(events):
        if e[0] == "op_end":
            op_end_seq[(e[1], e[2])] = seq

    aborted = run.status != "ok"
    async_iv: Dict[str, List[tuple]] = {}   # owner participant -> [(start_seq, end_seq, tok, nid)] of async-thread nodes in flight
    for tok, ea in toks.items():
        started: Dict[str, int] = {}
        for seq, e in ea.events:
            if e[0] == "dispatch_async" or (e[0] == "submit" and e[3] == "async"):
                started.setdefault(e[2], seq)
            elif e[0] == "exit" and e[2] in started:
                async_iv.setdefault(ea.owner, []).append((started.pop(e[2]), seq, tok, e[2]))
        for nid, s0 in started.items():
            async_iv.setdefault(ea.owner, []).append((s0, len(events) + 1, tok, nid))
    for tok, ea in toks.items():
        W = _analyse_exec(run, ea, retire_probe, aborted, op_end_seq)
        keep = []
        for w in W:
            if w["g"] != "loop_blocked_candidate":
                keep.append(w)
                continue
            # C17.c starvation: the loop thread sits in a blocking seam while an async-thread node (of any execution on
            # that loop) is in flight and no thread-resource node of the blocking execution is in flight
            if w["own_threads"]:
                run.rt.probe("loop_blocked_by_thread_node")
                continue
            live = [iv for iv in async_iv.get(w["part"], []) if iv[0] < w["seq"] < iv[1]]
            if live:
                keep.append(viol("loop_blocked", f"event loop thread parked in a blocking wait while async-thread node {live[0][3]} "
                                 f"(execution {live[0][2]}) is running and no thread node of this execution is in flight",
                                 op=w["op"], tok=w["tok"], seq=w["seq"]))
        W = keep
        if ea.ex is not None and ea.ex.exec_paths is not None:
            # known weak spot P6: every finding of an operation that deactivated a nested DAG with non-plain outputs carries the tag
            p6 = _p6_tags(run, ea.ex)
            if p6:
                for w in W:
                    w["tags"] = sorted(set(w["tags"]) | set(p6))
        if ea.ex is not None and ea.ex.kind == "rerun":
            # second run of an executor: whatever goes wrong in it is the single-use clause (C15.c)
            for w in W:
                w["tags"] = sorted(set(w["tags"]) | {"was:" + w["g"]})
                w["g"] = "rerun"
        V.extend(W)

    # ---- C16.c: DAGs built while other threads were running equal the sequentially built ones
    for (c, i, dn), snap in run.built_tables.items():
        want = run.ref_tables.get(dn)
        if want is None:
            continue
        if snap["nodes"] != want["nodes"] or snap["edges"] != want["edges"] or snap["results"] != want["results"]:
            extra = sorted(set(snap["nodes"]) - set(want["nodes"]))[:4]
            missing = sorted(set(want["nodes"]) - set(snap["nodes"]))[:4]
            V.append(viol("build_table", f"DAG {dn} built by client {c} differs from the sequential build: extra nodes {extra}, "
                          f"missing {missing}", op=(c, i, 0)))
    # ---- operation outcomes (value / raise)
    state_seen: Dict[tuple, Any] = {}
    for c, ops in enumerate(scn["clients"]):
        for i, op in enumerate(ops):
            if op["op"] == "gather":
                out = run.outcomes.get((c, i))
                if out is None:
                    continue
                if out["status"] == "exc":
                    V.append(viol("raise", f"gather raised {out['type']}: {out['msg'][:200]}", op=(c, i, 0)))
                    continue
                for j, r in enumerate(out["value"]):
                    ex = expects.get((c, i, j))
                    if ex is None or r is None:
                        continue
                    V.extend(_outcome(run, (c, i, j), ex, {"status": "ok" if r[0] == "ok" else "exc" if r[0] == "exc" else "cancelled",
                                                              "value": r[1], "exc": r[1], "type": type(r[1]).__name__, "msg": str(r[1])}))
                continue
            ex = expects.get((c, i, 0))
            out = run.outcomes.get((c, i))
            if ex is None or out is None:
                continue
            if ex.kind == "cprio":
                V.extend(_cprio(run, (c, i, 0), ex, out))
                continue
            if ex.kind == "graph":
                V.extend(_graph(run, (c, i, 0), ex, out))
                continue
            if ex.kind in ("cachekeys", "reskeys", "snapshot"):
                V.extend(_state_ops(run, (c, i, 0), ex, out, state_seen))
                continue
            V.extend(_outcome(run, (c, i, 0), ex, out))
    return V


def _deadlock_tags(run: Any) -> List[str]:
    tags = []
    for name, why in run.detail or []:
        if why.startswith("loop") or why == "wait" or why == "pool-shutdown":
            tags.append(why)
    return sorted(set(tags))


def _p6_tags(run: Any, ex: Expect) -> List[str]:
    """Known weak spot P6: this operation deactivated (at run time) a nested DAG call whose inner DAG returns something
    that is not a plain node result (inner constant, un-supplied default, indexed part)."""
    for path, st in (ex.status or {}).items():
        if st == "dag-deact":
            dn, idx = path[-1]
            s_ = run.spec["dags"][dn]["stmts"][idx]
            if run.spec["dags"][s_["dag"]].get("p6"):
                return ["p6:deactivated-nested-dag-nonplain-output"]
    return []


def _outcome(run: Any, key: tuple, ex: Expect, out: dict) -> List[dict]:
    V: List[dict] = []
    p6 = _p6_tags(run, ex) if ex.kind == "value" else []
    if ex.kind == "value":
        if out["status"] == "exc":
            e = out["exc"]
            cause = e.__cause__
            V.append(viol("raise", f"call raised {out['type']}: {out['msg'][:300]} (cause {cause!r:.120})", op=key,
                          tags=["exc:" + out["type"]] + (["cause:" + type(cause).__name__] if cause is not None else []) + p6,
                          exc_type=out["type"], exc_msg=out["msg"][:300]))
        elif out["status"] == "ok" and freeze(out["value"]) != freeze(ex.value):
            V.append(viol("value", f"returned {out['value']!r:.300}, reference {ex.value!r:.300}", op=key,
                          got=freeze(out["value"]), want=freeze(ex.value), tags=p6))
    elif ex.kind == "raises":
        if out["status"] == "ok":
            V.append(viol("noraise", f"expected one of {ex.raises}, returned {out['value']!r:.200}", op=key))
        elif out["status"] == "exc" and not _is_a(out, ex.raises):
            V.append(viol("wrongexc", f"expected one of {ex.raises}, raised {out['type']}: {out['msg'][:200]}", op=key,
                          tags=["exc:" + out["type"]], exc_type=out["type"]))
        elif out["status"] == "exc" and ex.fault_paths:
            V.extend(_failure_identity(run, key, ex, out))
    elif ex.kind == "none":
        if out["status"] == "exc":
            V.append(viol("raise", f"operation raised {out['type']}: {out['msg'][:300]}", op=key,
                          tags=["exc:" + out["type"]], exc_type=out["type"], exc_msg=out["msg"][:300]))
    elif ex.kind == "rerun":
        if out["status"] == "exc":
            if not _is_a(out, ("TawaziUsageError",)):
                V.append(viol("rerun", f"second run raised {out['type']}: {out['msg'][:200]} instead of refusing", op=key,
                              tags=["exc:" + out["type"]]))
        elif freeze(out["value"]) != freeze(ex.value):
            V.append(viol("rerun", f"second run returned {out['value']!r:.200}, a fresh run gives {ex.value!r:.200}", op=key))
    return V


def _cprio(run: Any, key: tuple, ex: Expect, out: dict) -> List[dict]:
    """C07.a-c: tawazi's compound-priority table equals own + sum over distinct descendants for all real nodes."""
    if out["status"] != "ok":
        run.rt.probe("introspection_failed")
        return []
    table = run.tables.get(run.inst_table.get(ex.inst, ""), {})
    mg = model_graph(run.spec, spec_dag_of(run, ex.inst), table, ex.overrides or {})
    got = out["value"]
    tags = ["selection"] if ex.selected is not None else []
    bad = []
    cp_ref = mg["cp"]
    if ex.note == "composed":
        # a composed DAG is its own graph: descendants are counted inside the composed node set only
        keep = {nid for nid, a in mg["attrs"].items() if a["role"] == "main" and len(a["path"]) == 1 and a["path"][0][1] in (ex.selected or ())}
        succ2 = {n: {m for m in mg["succ"].get(n, ()) if m in keep} for n in keep}
        cp_ref = ref_cprio(succ2, {n: mg["attrs"][n]["prio"] for n in keep})
        tags = ["composed"]
    for nid, want in cp_ref.items():
        a = mg["attrs"][nid]
        if ex.selected is not None and nid not in got:
            continue   # not part of the executor's graph
        if nid in got and got[nid] != want:
            bad.append((nid, got[nid], want))
        elif nid not in got and ex.selected is None:
            bad.append((nid, None, want))
    if bad:
        return [viol("cprio_table", f"compound priority differs from own + distinct descendants: {bad[:4]} (node, tawazi, reference)",
                     op=key, tags=tags)]
    return []


def _graph(run: Any, key: tuple, ex: Expect, out: dict) -> List[dict]:
    """C12.a: the real nodes of executor.graph are exactly the documented closure (debug nodes aside)."""
    if out["status"] != "ok":
        return [viol("raise", f"creating the executor raised {out['type']}: {out['msg'][:200]}", op=key, tags=["exc:" + out["type"]],
                     exc_type=out["type"])]
    table = run.tables.get(run.inst_table.get(ex.inst, ""), {})
    funcs = run.spec["funcs"]
    dg = run.spec["dags"][spec_dag_of(run, ex.inst)]
    got = set()
    for nid in out["value"][1]:
        info = table.get(nid)
        if info is not None and info["role"] == "main" and info["path"] is not None and len(info["path"]) == 1:
            got.add(info["path"][0][1])
    is_debug = {i for i, s_ in enumerate(dg["stmts"]) if s_["k"] == "call" and funcs[s_["fn"]]["debug"]}
    want = set(ex.selected or ())
    if ex.debug_on:
        got -= is_debug   # which additional debug nodes a sub-graph pulls in is not asserted
        want -= is_debug
    else:
        want -= is_debug
    if got != want:
        return [viol("graph", f"executor.graph holds statements {sorted(got)}, documented closure is {sorted(want)}", op=key,
                     tags=["debug"] if (got ^ want) <= is_debug else [])]
    return []


def _state_ops(run: Any, key: tuple, ex: Expect, out: dict, seen: Dict[tuple, Any]) -> List[dict]:
    if out["status"] != "ok":
        # reading tawazi internals (results map, node table, pickle) failed: a harness limitation, never a verdict
        run.rt.probe("introspection_failed")
        return []
    table = run.tables.get(run.inst_table.get(ex.inst, ""), {})
    funcs = run.spec["funcs"]
    if ex.kind == "cachekeys":
        got = {table[k]["path"][0][1] for k in out["value"] if k in table and table[k]["role"] == "main" and len(table[k]["path"]) == 1}
        if got != set(ex.selected or ()):
            return [viol("cache_keys", f"cache file holds results of statements {sorted(got)}, expected {sorted(ex.selected or ())}", op=key)]
        return []
    if ex.kind == "reskeys":
        keys = set(out["value"])
        base = seen.setdefault(("keys", ex.inst), keys)
        extra = keys ^ base
        bad = [k for k in extra if not (k in table and table[k]["role"] == "main" and funcs.get(table[k].get("fn"), {}).get("setup"))]
        if bad:
            return [viol("state_leak", f"DAG.results keys changed by {sorted(bad)[:5]} (not setup nodes)", op=key)]
        return []
    if ex.kind == "snapshot" and ex.note:
        # two flavours of one describing function: the recorded results of real nodes (setup results) must agree
        cur_r = {k: v for k, v in out["value"]["results"].items() if k in table and table[k]["role"] == "main"}
        base_r = seen.setdefault(("snap", ex.note), cur_r)
        if base_r != cur_r:
            return [viol("state_leak", f"recorded results differ between the two flavours: {sorted(set(base_r.items() if False else base_r) ^ set(cur_r))[:5]}", op=key)]
        return []
    if ex.kind == "snapshot":
        base = seen.setdefault(("snap", ex.note or ex.inst), out["value"])
        cur = out["value"]
        if base["nodes"] != cur["nodes"] or base["edges"] != cur["edges"]:
            return [viol("state_leak", "node table / dependency edges of the DAG changed", op=key)]
        diff = {k for k in set(base["results"]) ^ set(cur["results"])} | {k for k in base["results"] if k in cur["results"] and base["results"][k] != cur["results"][k]}
        bad = [k for k in diff if not (k in table and table[k]["role"] == "main" and funcs.get(table[k].get("fn"), {}).get("setup"))]
        if bad:
            return [viol("state_leak", f"DAG.results changed for {sorted(bad)[:5]}", op=key)]
    return []


def ref_order(in_graph: Set[str], expected_exec: Set[str], deps: Dict[str, Set[str]], cp: Dict[str, int]) -> Optional[List[str]]:
    """Greedy list schedule for max_concurrency == 1; None when a tie makes the order non-unique."""
    done: Set[str] = set()
    order: List[str] = []
    remaining = set(in_graph)
    while remaining:
        ready = [n for n in remaining if all(d in done or d not in in_graph for d in deps.get(n, ()))]
        if not ready:
            return None
        best = max(cp[n] for n in ready)
        b = [n for n in ready if cp[n] == best]
        if len(b) > 1:
            return None
        n = b[0]
        remaining.discard(n)
        done.add(n)
        if n in expected_exec:
            order.append(n)
    return order


def _failure_identity(run: Any, key: tuple, ex: Expect, out: dict) -> List[dict]:
    """C14.b: the exception names a node that failed before the raise, its call location, and carries the original."""
    V: List[dict] = []
    e = out["exc"]
    injected = {nid: x for (op, nid), x in run.injected.items() if op is not None and tuple(op) == tuple(key)}
    if any(e is x for x in injected.values()):
        return V  # the original exception itself (BaseException from a node, or a node without location)
    inst = run.op_inst.get(key)
    table = run.tables.get(run.inst_table.get(inst, ""), {}) if inst else {}
    if not _is_a(out, ("TawaziBaseException",)):
        V.append(viol("wrongexc", f"call raised {out['type']}: {out['msg'][:200]} which is neither a wrapped nor an injected failure",
                      op=key, tags=["exc:" + out["type"]], exc_type=out["type"]))
        return V
    msg = out["msg"]
    named = None
    for nid in injected:
        info = table.get(nid)
        if info is None or info["path"] is None:
            continue
        dn, idx = info["path"][-1]
        loc = stmt_location(dn, idx)
        if f"ExecNode {nid} at {loc}" in msg:
            named = nid
            break
    if named is None:
        V.append(viol("fail_identity", f"exception message {msg!r:.200} names none of the failed nodes {sorted(injected)} with its call location",
                      op=key))
    elif e.__cause__ is not injected[named]:
        V.append(viol("fail_identity", f"__cause__ of the raised exception is {e.__cause__!r:.100}, not the exception raised by {named}", op=key))
    return V


def _analyse_exec(run: Any, ea: ExecAnalysis, retire_probe: bool, aborted: bool, op_end_seq: Dict[tuple, int]) -> List[dict]:
    V: List[dict] = []
    ex, tok, opkey = ea.ex, ea.tok, ea.opkey
    inst = run.op_inst.get(opkey) if opkey is not None else None
    if inst is None or ex is None or ex.exec_paths is None:
        return V
    table = run.tables.get(run.inst_table.get(inst, ""), {})
    spec = run.spec
    dname = spec_dag_of(run, inst)
    mg = model_graph(spec, dname, table, ex.overrides or {})
    deps, attrs, cp = mg["deps"], mg["attrs"], mg["cp"]
    path_of = {nid: a["path"] for nid, a in attrs.items() if a["role"] == "main"}
    main_of = mg["main_of"]
    mc = ex.mc or 1
    failing = ex.kind == "raises"
    opk2 = (opkey[0], opkey[1]) if opkey else None
    out = run.outcomes.get(opk2) if opk2 else None
    op_ok = out is not None and out["status"] == "ok"
    if out is not None and isinstance(out.get("value"), list) and opkey is not None and len(opkey) == 3 \
            and run.scn["clients"][opkey[0]][opkey[1]]["op"] == "gather":
        r = out["value"][opkey[2]]
        op_ok = r is not None and r[0] == "ok"

    # execution graph according to the reference: which mapped nodes take part
    status = ex.status
    in_graph: Set[str] = set()
    expected_exec: Set[str] = set()
    expected_deact: Set[str] = set()
    for nid, a in attrs.items():
        if a["role"] == "main":
            s = status.get(a["path"])
            if s in ("exec", "op"):
                in_graph.add(nid)
                expected_exec.add(nid)
            elif s == "deact":
                in_graph.add(nid)
                expected_deact.add(nid)
        else:  # stub: takes part iff the nested call statement was evaluated
            s = status.get(a["path"])
            if s == "dag":
                in_graph.add(nid)
                expected_exec.add(nid)
            elif s == "dag-deact":
                in_graph.add(nid)
                expected_deact.add(nid)
    pulled: Set[str] = set()
    if ex.debug_on and ex.selected is not None:
        # debug nodes pulled into a sub-graph run take part in the scheduling decisions once they are known to take part
        # (entered, or retired without entering = deactivated)
        for nid_ in {e[2] for _, e in ea.events if e[0] in ("enter", "retire")}:
            a_ = attrs.get(nid_)
            if a_ is not None and a_["debug"] and nid_ not in in_graph:
                in_graph.add(nid_)
                pulled.add(nid_)
    if getattr(ex, "setup_optional", None):
        for nid_ in {e[2] for _, e in ea.events if e[0] == "enter"}:
            a_ = attrs.get(nid_)
            if a_ is not None and a_["role"] == "main" and a_["path"] in ex.setup_optional and nid_ not in in_graph:
                in_graph.add(nid_)
                expected_exec.add(nid_)
                run.rt.probe("setup_ran_in_concurrent_sibling")
    if ex.setup_only:
        in_graph = {n for n in in_graph if attrs[n]["setup"]}
        expected_exec &= in_graph
        expected_deact &= in_graph

    from .ref import gen_descendants
    desc_of = gen_descendants(mg["succ"])
    entered: collections.Counter = collections.Counter()
    # "ran" means: the node's FUNCTION was entered (ground truth from the generated body); calling the node's execute method is
    # not enough (where tawazi decides about activation - scheduler or node - is internal).  Operator / stub nodes have no
    # generated body: for them the execute call is the only observation.
    fn_entered: collections.Counter = collections.Counter()

    def has_body(n: str) -> bool:
        info_ = table.get(n)
        return bool(info_) and info_.get("role") == "main" and info_.get("fn") in spec["funcs"]

    def check_not_extra(n: str, a_: dict) -> None:
        if n not in expected_exec and not failing:
            g_ = "deact_ran" if n in expected_deact else "count_extra"
            V.append(viol(g_, f"{n} ran but the reference does not execute it (status {status.get(a_['path'])})",
                          op=opkey, tok=tok, tags=sel_tag + (["debug"] if a_["debug"] else []) + (["setup"] if a_["setup"] else [])))
    enter_seq: Dict[str, int] = {}
    exit_seq: Dict[str, int] = {}
    exit_ok: Dict[str, bool] = {}
    inside: Set[str] = set()
    observed: Set[str] = set()
    dispatched: Set[str] = set()
    retired: Set[str] = set()
    all_entered = {e[2] for _, e in ea.events if e[0] == "enter"}
    episode_kinds: Optional[List[str]] = None
    failure_observed_at: Optional[int] = None
    failed_nodes: Set[str] = set()
    n_blocks = 0
    sel_tag = ["selection"] if ex.selected is not None else []

    def ready_nodes(possible: bool = False) -> List[str]:
        """Definitely ready in the scheduler's view (default), or -- possible=True -- the over-approximation: every
        dependency has finished in ground truth, whether or not a wait has reported it to the scheduler yet."""
        out_ = []
        for m in in_graph:
            if m in dispatched or m in retired:
                continue
            if m in expected_deact and not possible:
                # a deactivated node is never *started*; when (and through which internal call) the scheduler prunes it is
                # not part of any property, so it is never counted as a definitely ready candidate (retire events are used
                # as positive information only: a pruned dependency no longer holds its successors back)
                continue
            ok = True
            for d in deps.get(m, ()):
                if d not in in_graph:
                    if m in pulled and not possible and status.get(attrs[d]["path"]) != "memo":
                        ok = False   # a pulled-in debug node whose input's participation is unknown is not *definitely* ready
                        break
                    continue
                if d in observed:
                    continue
                if retire_probe and d in retired and d not in all_entered:
                    continue
                if possible and (d in exit_seq or d in retired or d in expected_deact):
                    continue
                ok = False
                break
            if ok:
                out_.append(m)
        return out_

    def check_prio(n: str, seq: int) -> None:
        if n not in attrs:
            return
        for m in ready_nodes():
            if m != n and cp[m] > cp[n]:
                V.append(viol("prio", f"dispatched {n} (compound priority {cp[n]}) while ready node {m} has {cp[m]}",
                              op=opkey, tok=tok, tags=sel_tag, seq=seq))
                break

    for seq, e in ea.events:
        k = e[0]
        if k == "submit":
            _, _, nid, kind, unfinished = e
            if unfinished > mc:
                V.append(viol("maxconc", f"{unfinished} pooled nodes unfinished at submission of {nid}, max_concurrency={mc}",
                              op=opkey, tok=tok, seq=seq))
            if nid not in dispatched:
                # the submission is the dispatch decision - unless the decision was already seen as the creation of the task that
                # carries the node to the pool (async-thread nodes in tawazi; any pooled node in a scheduler that awaits them all)
                episode_kinds = None
                if failure_observed_at is not None:
                    V.append(viol("dispatch_after_failure", f"{nid} submitted after the scheduler observed a failure", op=opkey, tok=tok, seq=seq))
                check_prio(nid, seq)
                dispatched.add(nid)
        elif k == "dispatch_async":
            nid = e[2]
            episode_kinds = None
            if failure_observed_at is not None:
                V.append(viol("dispatch_after_failure", f"{nid} dispatched after the scheduler observed a failure", op=opkey, tok=tok, seq=seq))
            check_prio(nid, seq)
            dispatched.add(nid)
        elif k == "enter":
            _, _, nid, part, inline = e
            entered[nid] += 1
            if not has_body(nid):
                fn_entered[nid] += 1
            enter_seq.setdefault(nid, seq)
            a = attrs.get(nid)
            if a is None:
                info = table.get(nid)
                if info is not None and info["role"] in ("param",) and not failing:
                    pass
                continue
            if inline:
                episode_kinds = None
                if failure_observed_at is not None:
                    V.append(viol("dispatch_after_failure", f"{nid} run inline after the scheduler observed a failure", op=opkey, tok=tok, seq=seq))
                check_prio(nid, seq)
                dispatched.add(nid)
            # C02.a: dependencies that take part must have exited
            for d in deps.get(nid, ()):
                if (d in all_entered or d in expected_exec) and d not in exit_seq:
                    V.append(viol("order", f"{nid} entered before its dependency {d} returned", op=opkey, tok=tok, seq=seq))
            if failed_nodes:
                bad = [f for f in failed_nodes if nid in desc_of.get(f, ())]
                if bad:
                    V.append(viol("dependent_of_failed", f"{nid} started although it depends on the failed node {bad[0]}", op=opkey, tok=tok, seq=seq))
            # C04.b/c thread identity
            if a["res"] == "main_thread":
                if part != ea.owner:
                    V.append(viol("thread_main", f"main-thread node {nid} ran on {part}, invoking thread is {ea.owner}", op=opkey, tok=tok))
                if any(attrs[x]["res"] == "main_thread" for x in inside if x in attrs):
                    V.append(viol("thread_main", f"two main-thread nodes overlap: {nid}", op=opkey, tok=tok))
            elif part == ea.owner:
                V.append(viol("thread_pool", f"{a['res']} node {nid} ran on the invoking thread {part}", op=opkey, tok=tok))
                if ex.is_async:
                    V.append(viol("loop_runs_node", f"{a['res']} node {nid} ran on the event-loop thread {part}: the loop cannot serve "
                                  f"other coroutines meanwhile", op=opkey, tok=tok))
            # C04.a (ground truth): pooled node functions running at the same instant
            if a["res"] != "main_thread":
                n_run = 1 + sum(1 for x in inside if x in attrs and attrs[x]["res"] != "main_thread")
                if n_run > mc:
                    V.append(viol("maxconc", f"{n_run} pooled node functions running at the same instant, max_concurrency={mc}",
                                  op=opkey, tok=tok, seq=seq, tags=["running"]))
            # C05
            if a["seq"] and inside:
                V.append(viol("seq_enter", f"sequential node {nid} entered while {sorted(inside)} still running", op=opkey, tok=tok, seq=seq))
            for s in inside:
                if s in attrs and attrs[s]["seq"]:
                    V.append(viol("seq_during", f"{nid} entered while sequential node {s} is running", op=opkey, tok=tok, seq=seq))
            inside.add(nid)
            # C13.c: a debug node pulled into a sub-graph run (outside the user's selection) has all its inputs available
            if a["debug"] and ex.debug_on and ex.selected is not None and a["role"] == "main" and len(a["path"]) == 1 \
                    and a["path"][0][1] not in ex.selected:
                for d in deps.get(nid, ()):
                    st_d = status.get(attrs[d]["path"]) if d in attrs else None
                    if d not in exit_seq and st_d not in ("memo", "deact", "dag-deact"):
                        # (a deactivated input is available by design: its value is None)
                        V.append(viol("debug_input_missing", f"debug node {nid} was pulled into the sub-graph run although its input {d} "
                                      f"is neither executed nor pre-computed", op=opkey, tok=tok, tags=["debug"]))
                inside.add(nid)
                continue
            # nothing else runs: judged where the function body is entered; a node without a generated body (operator, argument
            # stub) that is wrongly evaluated shows in the values its dependents receive, not here
        elif k == "body":
            _, _, nid, fname, fargs, fkwargs, part = e
            fn_entered[nid] += 1
            if nid in attrs and has_body(nid) and not (attrs[nid]["debug"] and ex.debug_on and ex.selected is not None
                                                       and len(attrs[nid]["path"]) == 1 and attrs[nid]["path"][0][1] not in ex.selected):
                check_not_extra(nid, attrs[nid])
            p = path_of.get(nid)
            if p is not None and p in ex.args:
                wa, wk = ex.args[p]
                if freeze(tuple(wa)) != fargs or freeze(wk) != fkwargs:
                    V.append(viol("args", f"{nid} observed arguments {fargs} {fkwargs}, reference {freeze(tuple(wa))} {freeze(wk)}",
                                  op=opkey, tok=tok, tags=_p6_tags(run, ex)))
        elif k == "exit":
            _, _, nid, okflag, etype = e
            inside.discard(nid)
            exit_seq[nid] = seq
            exit_ok[nid] = okflag == "ok"
            if okflag != "ok":
                failed_nodes.add(nid)
            a = attrs.get(nid)
            if a is not None and a["res"] == "main_thread":
                observed.add(nid)
                if okflag != "ok" and failure_observed_at is None:
                    failure_observed_at = seq
            elif a is None and okflag != "ok" and failure_observed_at is None:
                info = table.get(nid)
                if info is not None and info["role"] in ("param", "stub"):
                    failure_observed_at = seq
        elif k == "wait_ret":
            for x in e[4]:
                if x:
                    observed.add(x)
                    if x in failed_nodes and failure_observed_at is None:
                        failure_observed_at = seq
        elif k == "retire":
            retired.add(e[2])
        elif k == "audit_block":
            # C08.b: view the scheduler would have if it woke up now
            _, _, kind, newly, rw = e
            hyp = set(newly)
            saved = set(observed)
            observed.update(hyp)
            inflight = [n for n in dispatched if n not in observed and n in attrs and attrs[n]["res"] != "main_thread"]
            v = idle_condition(inflight, ready_nodes(), attrs, cp, mc, ready_nodes(True))
            observed.clear()
            observed.update(saved)
            if v is not None:
                V.append(viol("idle_during", f"scheduler stays blocked in {kind} wait ({rw}) although {newly} finished: "
                              f"{len(inflight)}/{mc} in flight, ready {v}", op=opkey, tok=tok, seq=seq,
                              tags=["episode:" + "+".join(episode_kinds or ["none"])]))
        elif k == "audit_loopblock":
            if ex.is_async:
                own_threads = [n for n in dispatched if n in attrs and attrs[n]["res"] == "thread" and n not in exit_seq]
                V.append(viol("loop_blocked_candidate", f"loop thread parked in blocking {e[2]}", op=opkey, tok=tok, seq=seq,
                              own_threads=own_threads, part=e[3]))
        elif k == "start":
            # a pooled node that the pool itself held back (all workers busy) and that starts only after the scheduler has seen
            # a failure: nothing may be started after that point, whoever delayed it
            if len(e) > 3 and e[3] and failure_observed_at is not None and e[2] in attrs:
                V.append(viol("dispatch_after_failure", f"{e[2]} was queued in the worker pool and started after the scheduler observed a failure",
                              op=opkey, tok=tok, seq=seq, tags=["queued"]))
        elif k == "fault":
            # ground truth: the node function raised (whatever the layers above it make of the exception)
            if e[2] is not None:
                failed_nodes.add(e[2])
        elif k == "pool_starved":
            _, _, nids, workers, running = e
            if workers < mc and running < mc:
                V.append(viol("idle", f"scheduler blocks while {nids} are submitted but cannot start: the pool has {workers} worker(s), all busy, "
                              f"max_concurrency={mc} ({running} node(s) actually running)", op=opkey, tok=tok, seq=seq, tags=["pool_starved"]))
        elif k == "wait":
            _, _, kind, waited, rw, blocked = e
            inflight = [n for n in dispatched if n not in observed and n in attrs and attrs[n]["res"] != "main_thread"]
            if episode_kinds is None:
                episode_kinds = sorted({attrs[n]["res"] for n in inflight})
            if blocked:
                n_blocks += 1
                v = idle_condition(inflight, ready_nodes(), attrs, cp, mc, ready_nodes(True))
                if v is not None:
                    unobs = sorted(n for n in dispatched if n in exit_seq and n not in observed and attrs.get(n, {}).get("res") != "main_thread")
                    V.append(viol("idle", f"scheduler blocks in {kind} wait with {len(inflight)}/{mc} in flight and ready node(s) {v}; "
                                  f"finished but unobserved: {unobs}", op=opkey, tok=tok, seq=seq,
                                  tags=["episode:" + "+".join(episode_kinds or ["none"])] + (["unobserved_done"] if unobs else [])))

    # ---- C07.d: with max_concurrency == 1 and a tie-free reference table the execution order is unique
    if mc == 1 and not failing and not aborted and op_ok:
        want = ref_order(in_graph, expected_exec, deps, cp)
        got_order = [e[2] for _, e in ea.events if e[0] == "enter" and e[2] in attrs and e[2] in expected_exec]
        pulled = [e[2] for _, e in ea.events if e[0] == "enter" and e[2] in attrs and e[2] not in expected_exec]
        if pulled:
            want = None  # debug nodes pulled into the run compete for the single slot: the order is not asserted
        if want is not None and got_order != want:
            V.append(viol("order_mc1", f"execution order with max_concurrency=1 is {got_order}, reference (greedy by compound priority) {want}",
                          op=opkey, tok=tok, tags=sel_tag))
        elif want is not None:
            run.rt.probe("mc1_orders_checked")
    # ---- at the end of a normally returning execution
    if not failing and not aborted and op_ok:
        for nid in expected_exec:
            c = fn_entered.get(nid, 0)
            a = attrs[nid]
            tg = sel_tag + (["setup"] if a["setup"] else []) + (["debug"] if a["debug"] else [])
            if c == 0:
                V.append(viol("count_missing", f"{nid} never ran although the reference executes it", op=opkey, tok=tok, tags=tg))
            elif c > 1:
                V.append(viol("count_dup", f"{nid} ran {c} times in one execution", op=opkey, tok=tok, tags=tg))
            elif nid not in exit_seq or (opk2 in op_end_seq and exit_seq[nid] > op_end_seq[opk2]):
                V.append(viol("early_return", f"call returned before {nid} finished", op=opkey, tok=tok))
        for p in mg["unmapped"]:
            if ex.status.get(tuple(x for x in p if x[0] != "stub")) in ("exec", "op", "dag"):
                V.append(viol("count_missing", f"no node found for call site {p}", op=opkey, tok=tok, tags=["unmapped"]))
    for nid, c in fn_entered.items():
        if c > 1 and nid in attrs and (failing or not op_ok):
            V.append(viol("count_dup", f"{nid} ran {c} times in one execution", op=opkey, tok=tok, tags=["failing"]))
    return V


def idle_condition(inflight: List[str], ready: List[str], attrs: Dict[str, dict], cp: Dict[str, int], mc: int,
                   possibly_ready: Optional[List[str]] = None) -> Optional[List[str]]:
    """None when blocking is justified, else the ready nodes that could have been started.

    `inflight` over-approximates what the scheduler believes is in flight and `ready` under-approximates what it knows
    to be ready.  The sequential-candidate excuse must be judged on an OVER-approximation of the ready set
    (`possibly_ready`: dependencies finished in ground truth): the scheduler may have learnt about a completion through a
    channel the seams did not see, and then a sequential node may rightfully be its best candidate."""
    if not ready:
        return None
    if len(inflight) >= mc:
        return None
    if any(attrs[n]["seq"] for n in inflight):
        return None
    best = max(cp[m] for m in ready)
    cands = set(ready) | set(possibly_ready or ())
    if inflight and any(attrs[m]["seq"] for m in cands if cp[m] >= best):
        return None
    return sorted(ready)


def spec_dag_of(run: Any, inst: str) -> str:
    key = run.inst_table.get(inst, inst)
    return key.split(":", 1)[1]
