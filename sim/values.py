"""Total, deterministic node functions shared by the system under test and the reference."""
from __future__ import annotations

import ast
from typing import Any, Dict, Tuple

M = 10007


def H(v: Any) -> int:
    """Structural hash: distinct integers for None / bools / containers; no use of hash()."""
    if v is None:
        return 7919
    if isinstance(v, bool):
        return 3 + int(v)
    if isinstance(v, int):
        return v % 1000003
    if isinstance(v, float):
        return int(v * 1000) % 1000003
    if isinstance(v, str):
        return (sum((i + 1) * ord(c) for i, c in enumerate(v)) + 17) % M
    if isinstance(v, (tuple, list)):
        r = 11 if isinstance(v, tuple) else 12
        for x in v:
            r = (r * 31 + H(x)) % M
        return r
    if isinstance(v, dict):
        r = 13
        for k in sorted(v, key=str):
            r = (r * 37 + H(v[k]) + H(str(k))) % M
        return r
    return 5  # opaque object (e.g. a UsageExecNode leaking into a value): still total


def F(c: int, ret: str, args: Tuple[Any, ...], kwargs: Dict[str, Any]) -> Any:
    s = c
    for i, a in enumerate(args):
        s = (s + (i + 3) * H(a)) % M
    for k in sorted(kwargs):
        s = (s + 5 * H(kwargs[k]) + H(k)) % M
    if ret == "int":
        return s
    if ret == "bool":
        return s % 2 == 0
    if ret == "tuple2":
        return (s, s % 3 == 0)
    if ret == "list3":
        return [s, (s * 7 + 1) % M, s % 2 == 1]
    if ret == "dict":
        return {"a": s, "b": s % 2 == 0, "items": s % 11}   # ("items" is also the name of a dict method: a key is a key)
    if ret == "str":
        return "s%d" % (s % 97)
    if ret == "none":
        return None
    raise ValueError(ret)


# element types of container returns: (index, type)
ELEMS = {
    "tuple2": [(0, "int"), (1, "bool")],
    "list3": [(0, "int"), (1, "int"), (2, "bool")],
    "dict": [("a", "int"), ("b", "bool"), ("items", "int")],
}


def freeze(v: Any) -> Any:
    """JSON-able, order-stable representation of a value for logs / comparison."""
    if isinstance(v, (tuple, list)):
        return [("T" if isinstance(v, tuple) else "L")] + [freeze(x) for x in v]
    if isinstance(v, dict):
        return ["D"] + [[str(k), freeze(v[k])] for k in sorted(v, key=str)]
    if v is None or isinstance(v, (bool, int, str, float)):
        return v
    return "<" + type(v).__name__ + ">"


def lit(r: Any) -> Any:
    """Constants travel through scenarios as repr strings (tuples survive JSON)."""
    return ast.literal_eval(r) if isinstance(r, str) else r
