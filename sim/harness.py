"""Materialise a scenario (program + histories + faults) against the real tawazi package and run it
under the simulator.  Produces the event log, per-op outcomes and the node tables the oracles need.
"""
from __future__ import annotations

import ast
import asyncio
import copy
import inspect
import json
import os
import random
import shutil
import sys
import tempfile
import threading
import warnings
from typing import Any, Dict, List, Optional, Tuple

from . import core, seams
from .core import Sim, SimAbort, SimDeadlock, SimLivelock, SimStepCap
from .gen import render_dag, stmt_location
from .values import F, freeze, lit

seams.install_pre()
import tawazi  # noqa: E402
from tawazi import cfg as twz_cfg  # noqa: E402
import tawazi.node.node as nodemod  # noqa: E402

SEAM_REPORT = seams.install_post()


def _simple(v: Any) -> bool:
    return v is None or isinstance(v, (bool, int, float, str)) or (isinstance(v, tuple) and all(_simple(x) for x in v))


# Module-level scalars of the code under test as they are after import.  Every simulated run starts from them: a run must
# not inherit such state from the previous run in the same worker process (a defect that leaves one behind - e.g. a stale
# "describing thread" - would otherwise show as nondeterminism between two runs of one schedule instead of as a verdict).
_SUT_GLOBALS = {(n, k): v for n, m in list(sys.modules.items()) if n.split(".")[0] == "tawazi" and m is not None
                for k, v in list(vars(m).items()) if not k.startswith("__") and _simple(v)}


def _restore_sut_globals() -> None:
    for (n, k), v in _SUT_GLOBALS.items():
        m = sys.modules.get(n)
        if m is not None and k in vars(m) and _simple(vars(m)[k]) and vars(m)[k] != v:
            setattr(m, k, v)
warnings.simplefilter("ignore")
try:
    twz_cfg.TAWAZI_EXECNODE_OUTSIDE_DAG_BEHAVIOR = tawazi.consts.XNOutsideDAGCall.ignore
except Exception:  # pragma: no cover
    pass


class InjectedError(Exception):
    pass


class InjectedBase(BaseException):
    pass


class InjectedTwoArgs(Exception):
    """An exception type that cannot be built from a single message (like UnicodeDecodeError, CalledProcessError)."""

    def __init__(self, code: int, what: str) -> None:
        super().__init__(code, what)
        self.code, self.what = code, what


class HarnessSkip(Exception):
    """An operation that cannot be attempted because an earlier one (rightly or wrongly) failed; never judged."""


class HarnessError(Exception):
    """The harness itself misbehaved (never a verdict about tawazi)."""




class Run:
    """One simulated execution of one scenario under one schedule."""

    def __init__(self, scn: dict, chooser: core.Chooser, salt: int = 0, watchdog: bool = False,
                 line_points: Optional[set] = None) -> None:
        self.scn = scn
        self.spec = scn["program"]
        n_total = sum(len(d["stmts"]) for d in self.spec["dags"].values()) * max(1, len(scn.get("clients", [[]])))
        n_ops = sum(len(c) for c in scn.get("clients", [[]]))
        self.step_cap = scn.get("step_cap") or 150 * (n_total + 5) * max(1, n_ops)
        self.sim = Sim(chooser, step_cap=self.step_cap)
        self.rt = seams.Runtime(self.sim, salt=salt)
        self.rt.body_hook = self.body_hook
        self.outcomes: Dict[tuple, dict] = {}
        self.tables: Dict[str, Dict[str, dict]] = {}      # table key -> node id -> info
        self.marks = threading.local()
        self.envs: Dict[str, dict] = {}                   # env name -> namespace
        self.instances: Dict[str, Any] = {}               # instance name -> DAG object
        self.inst_table: Dict[str, str] = {}              # instance name -> table key
        self.executors: Dict[str, Any] = {}
        self.ex_inst: Dict[str, str] = {}
        self.op_inst: Dict[tuple, str] = {}               # CUR_OP key -> instance name
        self.faults = scn.get("faults", [])
        self.fired: List[tuple] = []
        self.injected: Dict[tuple, BaseException] = {}
        self.tick_nodes = scn.get("tick_nodes")
        self.ticks = 0
        self.ticker_stopped = False
        self.tmpdir: Optional[str] = None
        self.status = "ok"
        self.detail: Any = None
        self.watchdog = watchdog
        self.line_points = line_points
        self.built_tables: Dict[tuple, Any] = {}
        self.audit_violations: List[tuple] = []
        self.client_parts: Dict[int, str] = {}
        self.build_error: Optional[BaseException] = None
        self.ops_done: Dict[int, int] = {}
        self.entered_clients: set = set()
        self.rendezvous_done: set = set()
        self.clients_finished: Dict[int, bool] = {}
        self.ref_tables: Dict[str, Any] = {}

    # ------------------------------------------------------------------ materialisation
    def make_env(self, env_name: str, flip_async: bool = False) -> dict:
        run = self
        env: Dict[str, Any] = {}
        for fname, f in self.spec["funcs"].items():
            env[fname] = self._make_xn(fname, f)
        env["and_"], env["or_"], env["not_"] = tawazi.and_, tawazi.or_, tawazi.not_

        def _mark(idx: int, *outs: Any) -> None:
            st = getattr(run.marks, "cur", None)
            if st is not None:
                tbl = getattr(nodemod, "exec_nodes", None)
                if not isinstance(tbl, dict):
                    raise HarnessError("tawazi.node.node.exec_nodes is not available: cannot map call sites to node ids")
                st["marks"].append((idx, len(tbl)))

        def _pause(idx: int, what: str) -> None:
            run.sim.ev("describe_pause", env_name, idx, what)
            run.rt.probe("describe_paused")
            if what == "peer":
                # the describing function waits until another client has finished one more operation (or all are done):
                # a build must not hold back what other threads do
                me = run.sim.me()
                done0 = dict(run.ops_done)
                others = [c for c, nm in run.client_parts.items() if nm != (me.name if me else None)]
                run.sim.yield_("describe-wait-peer", info=("pause", env_name, idx), pred=lambda: any(
                    run.ops_done.get(c, 0) > done0.get(c, 0) for c in others) or all(run.clients_finished.get(c) for c in others))
            else:
                run.sim.yield_("describe-pause", info=("pause", env_name, idx))
            if what == "raise":
                raise InjectedError(f"injected build failure at statement {idx}")

        def _dag(dname: str) -> Any:
            dg = run.spec["dags"][dname]

            def deco(fn: Any) -> Any:
                st = {"marks": [], "name": dname}
                prev = getattr(run.marks, "cur", None)
                run.marks.cur = st
                try:
                    is_async = dg["is_async"] != (flip_async and dname == run.spec["main"])
                    d = tawazi.dag(max_concurrency=dg["mc"], is_async=is_async)(fn)
                finally:
                    run.marks.cur = prev
                run.tables[f"{env_name}:{dname}"] = run.build_table(env_name, dname, d, st["marks"])
                return d
            return deco

        env["_mark"], env["_pause"], env["_dag"] = _mark, _pause, _dag
        self.envs[env_name] = env
        return env

    def _make_xn(self, fname: str, f: dict) -> Any:
        run = self
        c, ret = f["c"], f["ret"]

        def fn(*args: Any, **kwargs: Any) -> Any:
            run.body_hook(fname, args, kwargs)
            return F(c, ret, args, kwargs)

        fn.__name__ = fn.__qualname__ = fname
        fn.__annotations__ = {}  # generated node functions are untyped (tawazi inspects return annotations for unpack_to)
        kw: Dict[str, Any] = dict(priority=f["priority"], is_sequential=f["is_sequential"],
                                  resource=getattr(tawazi.Resource, f["resource"]), debug=f["debug"], setup=f["setup"])
        if f["tag"] is not None:
            kw["tag"] = tuple(f["tag"]) if isinstance(f["tag"], list) else f["tag"]
        if f["unpack_to"] is not None:
            kw["unpack_to"] = f["unpack_to"]
        return tawazi.xn(**kw)(fn)

    def build(self, env_name: str, dnames: List[str], pauses: Optional[dict] = None, flip_async: bool = False) -> None:
        env = self.envs.get(env_name) or self.make_env(env_name, flip_async)
        for dname in dnames:
            der = self.spec["dags"][dname].get("derived")
            if der is not None:
                self._build_derived(env_name, env, dname, der)
                continue
            src = render_dag(self.spec, dname, (pauses or {}).get(dname))
            # tawazi asks inspect.getframeinfo() for every call site; for a file name that does not exist inspect scans
            # sys.modules each time (half of the run time).  Pre-seeding inspect's file->module cache only short-cuts that scan.
            inspect.modulesbyfile.setdefault(f"<gen:{dname}>", __name__)
            code = compile(src, f"<gen:{dname}>", "exec")
            exec(code, env)  # noqa: S102 - generated program
            self.instances[f"{env_name}:{dname}"] = env[dname]
            self.inst_table[f"{env_name}:{dname}"] = f"{env_name}:{dname}"

    def _build_derived(self, env_name: str, env: dict, dname: str, der: dict) -> None:
        """A DAG obtained with compose() from an already built one (written out in spec['dags'][dname] for the reference)."""
        binst = f"{env_name}:{der['from']}"
        base = self.instances[binst]
        ins = [self.alias(binst, ["ref", i]) for i in der["inputs"]]
        outs = [self.alias(binst, ["ref", i]) for i in der["outputs"]]
        comp = base.compose(dname, ins, outs)
        btab = self.tables[self.inst_table[binst]]
        keep = {int(k): v for k, v in der["keep"].items()}
        table: Dict[str, dict] = {}
        in_ids = [u.id for u in comp.input_uxns]
        for nid in comp.exec_nodes:
            if nid in in_ids:
                table[nid] = dict(path=None, role="param", stmt=None, idx=in_ids.index(nid))
                continue
            bi = btab.get(nid)
            if bi is not None and bi["role"] in ("main", "const") and bi.get("stmt") in keep:
                table[nid] = dict(bi, path=((dname, keep[bi["stmt"]]),), stmt=keep[bi["stmt"]])
            else:
                table[nid] = dict(path=None, role="retconst", stmt=None)
        self.tables[f"{env_name}:{dname}"] = table
        env[dname] = comp
        self.instances[f"{env_name}:{dname}"] = comp
        self.inst_table[f"{env_name}:{dname}"] = f"{env_name}:{dname}"

    def build_table(self, env_name: str, dname: str, d: Any, marks: List[tuple]) -> Dict[str, dict]:
        """node id -> {path, role, fn, stmt} using the insertion order of the node table and the marks."""
        ids = list(d.exec_nodes.keys())
        dg = self.spec["dags"][dname]
        table: Dict[str, dict] = {}
        nparams = len(dg["params"])
        for i, nid in enumerate(ids[:nparams]):
            table[nid] = dict(path=None, role="param", stmt=None, idx=i)
        start = nparams
        for idx, end in marks:
            seg = ids[start:end]
            start = end
            s = dg["stmts"][idx]
            path = ((dname, idx),)
            if s["k"] == "dag":
                inner_key = f"{env_name}:{s['dag']}"
                itab = self.tables.get(inner_key, {})
                pref = s["dag"] + "."
                for nid in seg:
                    x = nid[len(pref):] if nid.startswith(pref) else None
                    if x is not None and x in itab:
                        ii = itab[x]
                        if ii["role"] == "param":
                            table[nid] = dict(path=path, role="stub", stmt=idx, fn=None, pidx=ii["idx"])
                        else:
                            ip = ii["path"]
                            table[nid] = dict(path=(path + ip) if ip else path, role=ii["role"], stmt=idx,
                                              fn=ii.get("fn"), pidx=ii.get("pidx"))
                    else:
                        table[nid] = dict(path=path, role="const", stmt=idx, fn=None)
            else:
                mains = [nid for nid in seg if type(d.exec_nodes[nid]).__name__ == "LazyExecNode"]
                for nid in seg:
                    if mains and nid == mains[-1]:
                        table[nid] = dict(path=path, role="main", stmt=idx, fn=s.get("fn") or s.get("op"))
                    else:
                        table[nid] = dict(path=path, role="const", stmt=idx, fn=None)
        for nid in ids[start:]:
            table[nid] = dict(path=None, role="retconst", stmt=None)
        return table

    def path_of(self, inst: Optional[str], nid: Optional[str]) -> Optional[tuple]:
        if inst is None or nid is None:
            return None
        t = self.tables.get(self.inst_table.get(inst, ""), {})
        info = t.get(nid)
        if info is None or info["role"] != "main":
            return None
        return info["path"]

    def main_id(self, inst: str, stmt_idx: int) -> Optional[str]:
        t = self.tables.get(self.inst_table.get(inst, ""), {})
        for nid, info in t.items():
            if info["role"] == "main" and info["path"] is not None and len(info["path"]) == 1 and info["path"][0][1] == stmt_idx:
                return nid
        return None

    # ------------------------------------------------------------------ node body hook
    def body_hook(self, fname: str, args: tuple, kwargs: dict) -> None:
        sim = self.sim
        me = sim.me()
        if seams.RT is not self.rt or me is None:
            return
        cur = getattr(sim.tls, "cur_node", None)
        tok, nid = cur if cur is not None else (None, None)
        op = self.rt.tok_op.get(tok) if tok is not None else seams.CUR_OP.get()
        inst = self.op_inst.get(op) if op is not None else None
        path = self.path_of(inst, nid)
        sim.ev("body", tok, nid, fname, freeze(args), freeze(kwargs), me.name)
        if self.scn.get("rendezvous") and op is not None and inst is not None:
            # the first node body of each client's call waits until a peer client's call has entered a node body as well
            # (two concurrent runs of one DAG must be able to make progress independently of each other)
            c_me = op[0]
            self.entered_clients.add(c_me)
            if c_me not in self.rendezvous_done:
                self.rendezvous_done.add(c_me)
                self.rt.probe("rendezvous_waits")
                sim.yield_("body-rendezvous", info=("finish", tok, nid), pred=lambda: any(
                    c != c_me for c in self.entered_clients) or all(self.clients_finished.get(c) for c in self.client_parts if c != c_me))
        flt = self._fault(op, path, fname)
        if flt is not None and flt["when"] == "early":
            self._raise(flt, op, path, nid)
        pred = None
        if self.tick_nodes is not None and tok is not None:
            res = self.spec["funcs"][fname]["resource"]
            if res == "async_thread" and (self.tick_nodes == "all" or list(path or ()) in self.tick_nodes):
                t0 = self.ticks
                need = int(self.scn.get("tick_wait", 1))   # the node stays in flight over this many loop iterations
                pred = lambda: self.ticks >= t0 + need or self.ticker_stopped  # noqa: E731
                self.rt.probe("tick_dependent_bodies")
        dur = (self.scn.get("slow") or {}).get(fname)
        if dur and pred is None:
            # a node that takes (virtual) time: it finishes when the clock reaches its deadline, and the clock only moves when
            # nothing else can run - so every bounded wait of the code under test expires first
            self.rt.probe("slow_node_bodies")
            sim.yield_("body-sleep", deadline=sim.now + float(dur), info=("finish", tok, nid))
        sim.yield_("body", pred=pred, info=("finish", tok, nid))
        if flt is not None and flt["when"] == "late":
            self._raise(flt, op, path, nid)

    def _fault(self, op: Any, path: Optional[tuple], fname: str) -> Optional[dict]:
        if not self.faults or path is None:
            return None
        for flt in self.faults:
            fop = flt.get("op")
            if fop is not None and (op is None or list(op[:len(fop)]) != list(fop)):
                continue
            if [list(x) for x in path] == [list(x) for x in flt["path"]]:
                return flt
        return None

    def _raise(self, flt: dict, op: Any, path: Any, nid: Any) -> None:
        kind = flt.get("kind", "exc")
        e: BaseException = InjectedError(f"injected {nid}") if kind == "exc" else \
            InjectedTwoArgs(7, f"injected {nid}") if kind == "exc2" else InjectedBase(f"injected-base {nid}")
        self.injected[(op, nid)] = e
        self.fired.append((flt["when"], kind))
        self.sim.ev("fault", self.rt.cur_token(), nid, flt["when"], kind)
        raise e

    # ------------------------------------------------------------------ ops
    def alias(self, inst: str, a: list) -> Any:
        kind = a[0]
        if kind == "id":
            return self.main_id(inst, a[1])
        if kind == "ref":
            return self.instances[inst].exec_nodes[self.main_id(inst, a[1])]
        if kind == "param":
            ids = [nid for nid, info in self.tables[self.inst_table[inst]].items() if info["role"] == "param"]
            return ids[a[1]]
        return a[1]  # tag / raw

    def aliases(self, inst: str, lst: Any) -> Any:
        if lst is None:
            return None
        return [self.alias(inst, a) for a in lst]

    def _is_async(self, obj: Any) -> bool:
        return type(obj).__name__.startswith("Async")

    def _call(self, obj: Any, *args: Any) -> Any:
        if self._is_async(obj):
            async def main() -> Any:
                return await obj(*args)
            return asyncio.run(main())
        return obj(*args)

    def do_op(self, c: int, i: int, op: dict) -> Any:
        k = op["op"]
        key = (c, i, 0)
        if k == "build":
            self.build(op.get("env", "E"), op["dags"], op.get("pauses"), flip_async=op.get("flip_async", False))
            if op.get("snapshot"):
                for dn in op["dags"]:
                    inst = f"{op.get('env', 'E')}:{dn}"
                    self.built_tables[(c, i, dn)] = self.snapshot_dag(self.instances[inst])
            return None
        if k == "call":
            inst = op["inst"]
            self.op_inst[key] = inst
            return self._call(self.instances[inst], *[lit(a) for a in op["args"]])
        if k == "executor":
            inst = op["inst"]
            d = self.instances[inst]
            kw: Dict[str, Any] = {}
            sel = op.get("sel") or {}
            for name, field in (("T", "target_nodes"), ("X", "exclude_nodes"), ("R", "root_nodes")):
                if sel.get(name) is not None:
                    kw[field] = self.aliases(inst, sel[name])
            if op.get("cache_deps_of") is not None:
                kw["cache_deps_of"] = self.aliases(inst, op["cache_deps_of"])
            for f in ("cache_in", "from_cache"):
                if op.get(f):
                    kw[f] = os.path.join(self.tmp(), op[f])
            ex = d.executor(**kw)
            self.executors[op["ex"]] = ex
            self.ex_inst[op["ex"]] = inst
            return ("graph", sorted(ex.graph.nodes))
        if k in ("exrun", "exsetup") and op["ex"] not in self.executors:
            raise HarnessSkip(f"executor {op['ex']} was not created")
        if k == "exrun":
            ex = self.executors[op["ex"]]
            self.op_inst[key] = self.ex_inst[op["ex"]]
            return self._call(ex, *[lit(a) for a in op["args"]])
        if k == "exsetup":
            ex = self.executors[op["ex"]]
            self.op_inst[key] = self.ex_inst[op["ex"]]
            if self._is_async(ex):
                return asyncio.run(ex.setup())
            return ex.setup()
        if k == "setup":
            inst = op["inst"]
            d = self.instances[inst]
            self.op_inst[key] = inst
            sel = op.get("sel") or {}
            kw = {}
            for name, field in (("T", "target_nodes"), ("X", "exclude_nodes"), ("R", "root_nodes")):
                if sel.get(name) is not None:
                    kw[field] = self.aliases(inst, sel[name])
            if self._is_async(d):
                return asyncio.run(d.setup(**kw))
            return d.setup(**kw)
        if k == "deepcopy":
            self.instances[op["as"]] = copy.deepcopy(self.instances[op["inst"]])
            self.inst_table[op["as"]] = self.inst_table[op["inst"]]
            return None
        if k == "config":
            inst = op["inst"]
            d = self.instances[inst]
            conf = self.resolve_config(inst, op["cfg"])
            how = op.get("how", "dict")
            if how == "attr":
                d.max_concurrency = conf["max_concurrency"]
            elif how == "dict":
                d.config_from_dict(conf)
            elif how == "json":
                p = os.path.join(self.tmp(), f"cfg{c}_{i}.json")
                with open(p, "w") as fh:
                    json.dump(conf, fh)
                d.config_from_json(p)
            else:
                import yaml
                p = os.path.join(self.tmp(), f"cfg{c}_{i}.yaml")
                with open(p, "w") as fh:
                    yaml.safe_dump(conf, fh)
                d.config_from_yaml(p)
            return None
        if k == "compose":
            inst = op["inst"]
            d = self.instances[inst]
            ins = ... if op["inputs"] == "..." else self.aliases(inst, op["inputs"])
            outs = self.alias(inst, op["outputs"][0]) if op.get("single") else self.aliases(inst, op["outputs"])
            kw = {}
            if op.get("is_async") is not None:
                kw["is_async"] = op["is_async"]
            if op.get("mc") is not None:
                kw["max_concurrency"] = op["mc"]
            comp = d.compose(op["as"], ins, outs, **kw)
            self.instances[op["as"]] = comp
            self.inst_table[op["as"]] = self.inst_table[inst]
            return None
        if k == "gather":
            return self.do_gather(c, i, op)
        if k == "xn_outside":
            env = self.envs[op.get("env", "E")]
            return env[op["fn"]](*[lit(a) for a in op["args"]])
        if k == "set_debug":
            twz_cfg.RUN_DEBUG_NODES = bool(op["value"])
            return None
        if k == "snapshot":
            return self.snapshot_dag(self.instances[op["inst"]])
        if k == "results_keys":
            return sorted(self.instances[op["inst"]].results.keys())
        if k == "cprio":
            d = self.instances[op["inst"]] if "inst" in op else None
            g = d.graph_ids if d is not None else self.executors[op["ex"]].graph
            return {n: g.compound_priority[n] for n in g.nodes}
        if k == "read_cache":
            import pickle
            with open(os.path.join(self.tmp(), op["file"]), "rb") as fh:
                return sorted(pickle.load(fh).keys())  # noqa: S301
        raise HarnessError(f"unknown op {k}")

    def resolve_config(self, inst: str, conf: dict) -> dict:
        out = dict(conf)
        if "nodes" in conf:
            nodes = {}
            for a, v in conf["nodes"]:
                nodes[self.alias(inst, a)] = copy.deepcopy(v)   # a fresh object per operation (tawazi may keep / change it)
            out["nodes"] = nodes
        return out

    def do_gather(self, c: int, i: int, op: dict) -> Any:
        run = self
        calls = op["calls"]
        results: List[Any] = [None] * len(calls)
        state = {"done": False}

        async def one(j: int, cl: dict) -> None:
            seams.CUR_OP.set((c, i, j))
            if "ex" in cl:
                if cl["ex"] not in run.executors:
                    results[j] = ("skipped", None)
                    return
                target = run.executors[cl["ex"]]
                run.op_inst[(c, i, j)] = run.ex_inst[cl["ex"]]
            else:
                target = run.instances[cl["inst"]]
                run.op_inst[(c, i, j)] = cl["inst"]
            try:
                results[j] = ("ok", await target(*[lit(a) for a in cl["args"]]))
            except (SimAbort, SimLivelock):
                raise
            except asyncio.CancelledError:
                results[j] = ("cancelled", None)
            except BaseException as e:  # noqa: BLE001
                results[j] = ("exc", e)

        async def ticker() -> None:
            while not state["done"]:
                run.ticks += 1
                run.sim.ev("tick", run.ticks)
                await asyncio.sleep(0)

        async def canceller(tasks: List[Any], idx: int, at: int) -> None:
            for _ in range(at):
                await asyncio.sleep(0)
            if not tasks[idx].done():
                run.fired.append(("cancel", "F5"))
                run.sim.ev("cancel", (c, i, idx))
                tasks[idx].cancel()

        async def main() -> None:
            t = asyncio.ensure_future(ticker()) if op.get("ticker") else None
            tasks = [asyncio.ensure_future(one(j, cl)) for j, cl in enumerate(calls)]
            cn = None
            if op.get("cancel"):
                cn = asyncio.ensure_future(canceller(tasks, op["cancel"]["idx"], op["cancel"]["at"]))
            await asyncio.gather(*tasks, return_exceptions=True)
            state["done"] = True
            for t_ in tasks:
                # simulator control exceptions must not be swallowed by gather
                if t_.done() and not t_.cancelled() and isinstance(t_.exception(), (SimAbort, SimLivelock)):
                    raise t_.exception()  # type: ignore[misc]
            if t is not None:
                await t
            run.ticker_stopped = True
            if cn is not None:
                await cn

        asyncio.run(main())
        if any(r is None for r in results):
            raise HarnessError(f"gather: call(s) {[j for j, r in enumerate(results) if r is None]} left no outcome")
        return results

    def snapshot_dag(self, d: Any) -> Any:
        nodes = {}
        for nid, xn in d.exec_nodes.items():
            nodes[nid] = (type(xn).__name__, [(u.id, list(u.key)) for u in xn.args],
                          sorted((k, u.id, tuple(u.key)) for k, u in xn.kwargs.items()),
                          (xn.active.id, list(xn.active.key)) if xn.active is not None else None)
        return {"nodes": nodes, "results": {k: freeze(v) for k, v in d.results.items()},
                "edges": sorted(d.graph_ids.edges)}

    def tmp(self) -> str:
        if self.tmpdir is None:
            self.tmpdir = tempfile.mkdtemp(prefix="twzsim-")
        return self.tmpdir

    # ------------------------------------------------------------------ run
    def client_fn(self, c: int, ops: List[dict]) -> Any:
        def fn() -> None:
            if self.scn.get("same_thread_names"):
                threading.current_thread().name = "worker_0"   # thread names are not unique in general
            for i, op in enumerate(ops):
                seams.CUR_OP.set((c, i, 0))
                self.sim.ev("op_begin", c, i, op["op"])
                try:
                    v = self.do_op(c, i, op)
                    self.outcomes[(c, i)] = {"status": "ok", "value": v}
                    self.ops_done[c] = self.ops_done.get(c, 0) + 1
                    self.sim.ev("op_end", c, i, "ok")
                except (SimAbort, SimLivelock):
                    raise
                except HarnessSkip:
                    self.ops_done[c] = self.ops_done.get(c, 0) + 1
                    self.sim.ev("op_end", c, i, "skipped")
                except BaseException as e:  # noqa: BLE001
                    self.outcomes[(c, i)] = {"status": "exc", "exc": e, "type": type(e).__name__, "msg": str(e)}
                    self.ops_done[c] = self.ops_done.get(c, 0) + 1
                    self.sim.ev("op_end", c, i, "exc", type(e).__name__)
            self.clients_finished[c] = True
        return fn

    def execute(self) -> "Run":
        scn = self.scn
        _restore_sut_globals()
        prev_debug = twz_cfg.RUN_DEBUG_NODES
        twz_cfg.RUN_DEBUG_NODES = bool(scn.get("debug_on", False))
        prev_profile = twz_cfg.TAWAZI_PROFILE_ALL_NODES
        twz_cfg.TAWAZI_PROFILE_ALL_NODES = bool(scn.get("profile_all", False))
        seams.set_runtime(self.rt)
        if self.watchdog:
            seams.enable_watchdog(scn.get("branch_cap") or 20000 * (sum(len(d["stmts"]) for d in self.spec["dags"].values()) + 5))
            self.sim.on_yield = lambda p: seams.watchdog_reset()
        if self.line_points is not None:
            seams.enable_line_preemption(os.path.dirname(tawazi.__file__))
            seams.arm_lines(self.line_points)
        elif seams._line["on"]:
            seams.arm_lines(set())
        try:
            try:
                for b in scn.get("refbuild", []):
                    # sequential reference build (outside the simulated clients) of DAGs that clients will build concurrently
                    self.build(b.get("env", "REF"), b["dags"])
                    for dn in b["dags"]:
                        self.ref_tables[dn] = self.snapshot_dag(self.instances[f"{b.get('env', 'REF')}:{dn}"])
                for b in scn.get("prebuild", []):
                    self.build(b.get("env", "E"), b["dags"], flip_async=b.get("flip_async", False))
            except BaseException as e:  # noqa: BLE001 - a build that raises is a finding, not a harness error
                self.build_error = e
            for c, ops in enumerate(scn["clients"] if self.build_error is None else []):
                p = self.sim.spawn(f"client{c}", "client", self.client_fn(c, ops))
                self.client_parts[c] = p.name
            from . import audits
            audits.install(self)
            try:
                self.sim.run()
            except SimDeadlock as e:
                self.status, self.detail = "deadlock", e.args[0]
            except SimStepCap as e:
                self.status, self.detail = "stepcap", e.args[0]
            for p in self.sim.parts:
                if isinstance(p.error, SimLivelock):
                    self.status, self.detail = "livelock", str(p.error)
            if self.rt.livelock is not None and self.status == "ok":
                self.status, self.detail = "livelock", self.rt.livelock
        finally:
            try:
                self.sim.shutdown()
            finally:
                self.sim.on_yield = None
                for p in self.sim.parts:
                    if isinstance(p.error, SimLivelock) and self.status == "ok":
                        self.status, self.detail = "livelock", str(p.error)
                self.rt.max_branch = seams._watch["max"]
                for lp in self.rt.loops:
                    try:
                        if not lp.is_closed():
                            if lp.is_running():
                                lp._thread_id = None  # type: ignore[attr-defined]
                            lp.close()
                    except Exception:  # noqa: BLE001
                        try:
                            lp._selector.real.close()
                        except Exception:  # noqa: BLE001
                            pass
                seams.set_runtime(None)
                twz_cfg.RUN_DEBUG_NODES = prev_debug
                twz_cfg.TAWAZI_PROFILE_ALL_NODES = prev_profile
                if self.tmpdir is not None:
                    shutil.rmtree(self.tmpdir, ignore_errors=True)
        harness_err = [p for p in self.sim.parts if p.error is not None and not isinstance(p.error, SimLivelock)]
        if harness_err:
            raise HarnessError(f"participant {harness_err[0].name} raised {harness_err[0].error!r}") from harness_err[0].error
        return self

    def digest(self) -> str:
        return core.digest_events(self.sim.events, self.sim.schedule)


def plain_exec(spec: dict, dname: str, args: List[Any]) -> Any:
    """Evaluate the *rendered source* with plain callables (cross-check of renderer + interpreter)."""
    env: Dict[str, Any] = {}
    shapes: Dict[str, dict] = {n: spec["dags"][n]["ret"] for n in spec["order"]}

    def mk(fname: str, f: dict) -> Any:
        def w(*a: Any, twz_active: Any = True, twz_tag: Any = None, twz_unpack_to: Any = None, **k: Any) -> Any:
            if not twz_active:
                return None
            return F(f["c"], f["ret"], a, k)
        return w

    for fname, f in spec["funcs"].items():
        env[fname] = mk(fname, f)
    env["and_"] = lambda a, b: a and b
    env["or_"] = lambda a, b: a or b
    env["not_"] = lambda a: not a
    env["_mark"] = lambda *a: None
    env["_pause"] = lambda *a: None

    def _dag(name: str) -> Any:
        def deco(fn: Any) -> Any:
            ret = shapes[name]

            def w(*a: Any, twz_active: Any = True) -> Any:
                if not twz_active:
                    sh = ret["shape"]
                    n = len(ret["items"])
                    return None if sh == "single" else tuple([None] * n) if sh == "tuple" else [None] * n if sh == "list" \
                        else {k: None for k in ret["keys"]}
                return fn(*a)
            return w
        return deco

    env["_dag"] = _dag
    for n in spec["order"]:
        exec(compile(render_dag(spec, n), f"<plain:{n}>", "exec"), env)  # noqa: S102
    return env[dname](*args)
