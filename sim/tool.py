"""Subprocess entry points (fresh interpreter, explicit PYTHONHASHSEED): batch | shrink | replay | selftest."""
from __future__ import annotations

import faulthandler
import json
import sys
import traceback


def main() -> None:
    cmd = sys.argv[1]
    job = json.loads(open(sys.argv[2]).read())
    faulthandler.enable()
    faulthandler.dump_traceback_later(job.get("hard_timeout", 3000), exit=True)
    from . import runner
    from .props import PROPS
    if cmd == "batch":
        res = runner.worker_batch(job)
    elif cmd == "shrink":
        from . import shrink
        prop = PROPS[job["prop"]]
        try:
            scn, rec, sched, finding, tried = shrink.shrink(prop, job["record"], job["schedule"], job["target"],
                                                            salt=job.get("salt", 0), budget=job.get("budget", 1500),
                                                            wall=job.get("wall", 60.0))
            run, F, _ = runner.execute(prop, scn, schedule=sched, salt=job.get("salt", 0))
            res = {"ok": True, "scenario": scn, "record": rec, "schedule": sched, "finding": finding, "tried": tried,
                   "digest": run.digest(), "events": runner.trim_events(run.sim.events, 300),
                   "sources": runner.render_program(scn["program"])}
        except Exception:
            res = {"ok": False, "error": traceback.format_exc()[-2000:]}
    elif cmd == "replay":
        prop = PROPS[job["prop"]]
        try:
            out = []
            for _ in range(job.get("times", 1)):
                run, F, _ = runner.execute(prop, job["scenario"], schedule=job["schedule"], salt=job.get("salt", 0))
                out.append({"digest": run.digest(), "findings": F[:200], "status": run.status,
                            "steps": run.sim.step})
            # the recorded schedule may diverge on a changed tree: also sample fresh schedules of the same scenario
            for j in range(job.get("extra", 0)):
                strat = ["uniform", "pct2", "sticky", "fifo2"][j % 4]
                run, F, _ = runner.execute(prop, job["scenario"], strategy=strat, sseed=f"pinned:{j}", salt=job.get("salt", 0))
                out.append({"digest": run.digest(), "findings": F[:200], "status": run.status, "steps": run.sim.step, "extra": True})
            res = {"ok": True, "runs": out}
        except Exception:
            res = {"ok": False, "error": traceback.format_exc()[-2000:]}
    elif cmd == "selftest":
        res = selftest()
    elif cmd == "smoke":
        res = smoke(job)
    else:
        raise SystemExit(f"unknown command {cmd}")
    with open(job["out"], "w") as fh:
        json.dump(res, fh, default=str)


def smoke(job: dict) -> dict:
    """Small in-process run of every property (used by the mutation analysis): first new finding per property."""
    import os
    import time

    from . import runner
    from .props import PROPS
    root = os.path.dirname(os.path.dirname(os.path.abspath(__file__)))
    known = [e for e in json.load(open(os.path.join(root, "known_findings.json")))["entries"] if e["status"] == "known"]

    def is_known(pid: str, f: dict) -> bool:
        for e in known:
            if e["property"] != pid or (e.get("clause") and e["clause"] != f["clause"]):
                continue
            if not set(e.get("tags", [])) <= set(f.get("tags", [])):
                continue
            ok = True
            for k, v in (e.get("match") or {}).items():
                fv = f.get(k)
                if isinstance(v, str) and v.startswith("~"):
                    ok = ok and fv is not None and v[1:] in str(fv)
                else:
                    ok = ok and fv == v
            if ok:
                return True
        return False

    out = {"props": {}, "wall": {}}
    for pid in sorted(PROPS):
        t0 = time.time()
        prop = PROPS[pid]
        n = max(10, job["seeds"] // 12) if prop.fault_enum else job["seeds"]
        r = runner.worker_batch({"prop": pid, "base": 4242, "start": 0, "stop": n, "step": 1, "time_budget": job.get("budget", 60),
                                 "det_every": 10 ** 9})
        hit = None
        if r["harness_errors"]:
            hit = "HARNESS: " + r["harness_errors"][0][-200:]
        for v in r["violations"]:
            for f in v["findings"]:
                if not is_known(pid, f):
                    hit = hit or f"{f['clause']} {f['tags']}: {f['msg'][:160]}"
        out["props"][pid] = hit
        out["wall"][pid] = round(time.time() - t0, 1)
    return out


def selftest() -> dict:
    """Seam self-test: a 3-node DAG must produce pool, wait, loop, lock and ENTER/EXIT events."""
    import random

    from . import core, harness
    spec = {"funcs": {f"f{i}": dict(c=i + 1, ret="int", priority=0, is_sequential=False, resource=r, debug=False, setup=False,
                                    tag=None, unpack_to=None) for i, r in enumerate(["thread", "async_thread", "main_thread"])},
            "dags": {"main": {"params": [["p0", False, None]], "mc": 2, "is_async": False, "stmts": [
                dict(k="call", fn="f0", args=[["v", "p0", []]], kwargs=[], flag=None, tag=None, unpack=None, out=["v0"]),
                dict(k="call", fn="f1", args=[["v", "p0", []]], kwargs=[], flag=None, tag=None, unpack=None, out=["v1"]),
                dict(k="call", fn="f2", args=[["v", "v0", []], ["v", "v1", []]], kwargs=[], flag=None, tag=None, unpack=None, out=["v2"])],
                "ret": {"shape": "single", "items": [["v", "v2", []]], "keys": []}}},
            "order": ["main"], "main": "main"}
    scn = {"program": spec, "clients": [[{"op": "build", "dags": ["main"]}, {"op": "call", "inst": "E:main", "args": ["1"]}]]}
    run = harness.Run(scn, core.UniformChooser(random.Random(1))).execute()
    kinds = {e[0] for e in run.sim.events}
    need = {"exec_begin", "submit", "dispatch_async", "enter", "body", "exit", "wait", "wait_ret", "lock_acquired", "lock_released", "exec_end"}
    whys = {w for _, w in run.sim.trace}
    ok_out = run.outcomes.get((0, 1), {}).get("status") == "ok"
    return {"ok": need <= kinds and "loop-idle" in whys and ok_out, "missing": sorted(need - kinds), "whys": sorted(whys),
            "tawazi_file": harness.tawazi.__file__, "seams": {k: v for k, v in harness.SEAM_REPORT.items()},
            "outcome": str(run.outcomes.get((0, 1)))}


if __name__ == "__main__":
    main()
