"""Per-property registry: scenario generator (stream P), clause map (generic oracle clause -> label of
this property), schedule strategies, budgets."""
from __future__ import annotations

import copy
from typing import Any, Callable, Dict, List, Optional

from . import gen
from .core import Draw
from .model import flat_graph
from .ref import ref_select

ARG_VALUES = ["0", "1", "4", "True", "False"]
INPUT_VALUES = {"tuple2": ["(5, True)", "(0, False)", "(31, False)"], "dict": ["{'a': 3, 'b': False, 'items': 4}", "{'a': 0, 'b': True, 'items': 0}"],
                "list3": ["[1, 2, True]", "[9, 0, False]"], "none": ["None", "4"]}


def draw_args(d: Draw, dg: dict, p_skip_default: float = 0.5) -> List[str]:
    args = []
    for p in dg["params"]:
        if p[1] and d.bool(p_skip_default):
            break
        if len(p) > 3 and p[3] == "any" and d.bool(0.12):
            args.append("None")   # an explicit None is a value like any other (also for a parameter that has a default)
        else:
            args.append(d.pick(ARG_VALUES))
    return args


def alias_for(d: Draw, spec: dict, dname: str, n: Any, tags_ok: bool = True) -> list:
    if n[0] == "p":
        return ["param", n[1]]
    return [d.pick(["id", "ref"]), n[1]]


def draw_selection(d: Draw, spec: dict, dname: str, p_R: float = 0.35, p_X: float = 0.4, p_T: float = 0.6,
                   p_invalid: float = 0.0, p_tag: float = 0.0, p_empty: float = 0.05) -> dict:
    if p_empty and d.bool(p_empty):
        # explicitly empty selections are selections (nothing selected), not "no selection given"
        return d.pick([{"T": []}, {"R": []}, {"X": []}, {"T": [], "X": []}])
    g = flat_graph(spec, dname)
    stmts = sorted(n for n in g["nodes"] if n[0] == "s")
    sel: Dict[str, Any] = {}
    R = None
    aliasable_roots = sorted(n for n in g["roots"] if n[0] in ("s", "p"))
    # roots below which a switched node lies while the producer of its flag does not: the flag is then simply not there
    dg_ = spec["dags"][dname]
    by_out = {o: i for i, s_ in enumerate(dg_["stmts"]) for o in s_["out"]}
    cut_roots = []
    if aliasable_roots:
        from .ref import gen_descendants
        desc = gen_descendants(g["succ"])
        for i, s_ in enumerate(dg_["stmts"]):
            fl = s_.get("flag") if s_["k"] == "call" else None
            if fl and fl[0] == "v" and fl[1] in by_out:
                q = ("s", by_out[fl[1]])
                cut_roots += [r for r in aliasable_roots if ("s", i) in desc[r] and q not in desc[r] and q != r]
    if cut_roots and d.bool(0.5 if p_R else 0.0):
        R = [d.pick(sorted(set(cut_roots)))]
        sel["R"] = [alias_for(d, spec, dname, n) for n in R]
    elif aliasable_roots and d.bool(p_R):
        R = d.sample(aliasable_roots, d.int(1, len(aliasable_roots)))
        if p_invalid and d.bool(p_invalid):
            non = [n for n in stmts if n not in g["roots"]]
            if non:
                R.append(d.pick(non))
        sel["R"] = [alias_for(d, spec, dname, n) for n in R]
    S1 = ref_select(g["nodes"], g["succ"], g["roots"], R, None, None)
    if S1 == "ValueError":
        return sel
    s1 = sorted(n for n in S1 if n[0] == "s")
    X = None
    if s1 and d.bool(p_X):
        X = d.sample(s1, d.int(1, min(2, len(s1))))
        sel["X"] = [alias_for(d, spec, dname, n) for n in X]
    S2 = ref_select(g["nodes"], g["succ"], g["roots"], R, X, None)
    s2 = sorted(n for n in S2 if n[0] == "s")
    if d.bool(p_T):
        pool = s2
        if p_invalid and d.bool(p_invalid):
            pool = stmts
        if pool:
            T = d.sample(pool, d.int(1, min(3, len(pool))))
            als = [alias_for(d, spec, dname, n) for n in T]
            if p_tag and d.bool(p_tag):
                tags = sorted({t for f in spec["funcs"].values() for t in ([f["tag"]] if isinstance(f["tag"], str) else (f["tag"] or []))})
                if tags:
                    als.append(["tag", d.pick(tags)])
            if p_invalid and d.bool(p_invalid / 2):
                als.append(["raw", "no_such_node"])
            sel["T"] = als
    return sel


def base_scn(spec: dict, ops: List[dict], **kw: Any) -> dict:
    scn = dict(program=spec, prebuild=[dict(dags=spec["order"])], clients=[ops])
    scn.update(kw)
    return scn


# ----------------------------------------------------------------------------- scenario generators
def scn_sched(d: Draw, prof: dict, *, selections: float = 0.0, history: float = 0.0, config: float = 0.0,
              compose: float = 0.0) -> dict:
    spec = gen.gen_program(d, prof)
    dg = spec["dags"]["main"]
    ops: List[dict] = []
    profile_all = d.bool(0.1)   # per-node profiling switched on (cfg.TAWAZI_PROFILE_ALL_NODES): nothing observable may change
    if config and d.bool(config):
        nodes = []
        cfg_idx = [i for i, s_ in enumerate(dg["stmts"]) if s_["k"] != "dag"]
        for idx in d.sample(cfg_idx, d.int(1, min(3, len(cfg_idx)))) if cfg_idx else []:
            v: Dict[str, Any] = {}
            if d.bool(0.8):
                v["priority"] = d.int(-3, 6)
            if d.bool(0.3):
                v["is_sequential"] = d.bool(0.5)
            if v:
                nodes.append([["id", idx], v])
        tags = sorted({t for f in spec["funcs"].values() for t in ([f["tag"]] if isinstance(f["tag"], str) else (f["tag"] or []))})
        if tags and d.bool(0.4):
            nodes.append([["tag", d.pick(tags)], {"priority": d.int(-3, 6)}])   # may collide with an id entry: then ValueError is expected
        conf: Dict[str, Any] = {"nodes": nodes}
        if d.bool(0.3):
            conf["max_concurrency"] = d.int(1, 4)
        how = d.pick(["dict", "json", "yaml"])
        if d.bool(0.2):
            # the limit alone, sometimes by plain assignment of the public attribute
            conf, how = {"max_concurrency": d.int(1, 5)}, d.pick(["attr", "attr", "dict", "yaml"])
        ops.append(dict(op="config", inst="E:main", cfg=conf, how=how))
    if history and d.bool(history):
        for _ in range(d.int(1, 2)):
            ops.append(dict(op="call", inst="E:main", args=draw_args(d, dg)))
        if ops and ops[0]["op"] == "config" and d.bool(0.6):
            ops.append(ops.pop(0))   # reconfigure after earlier calls: nothing computed for the old configuration may survive
    if compose and all(s_["k"] != "dag" for s_ in dg["stmts"]) and d.bool(compose):
        # derive a composed DAG (and maybe run it) before the call under test: must not change the original
        g = flat_graph(spec, "main")
        non_setup = sorted(n for n in g["nodes"] if n[0] == "s" and not (
            dg["stmts"][n[1]]["k"] == "call" and spec["funcs"][dg["stmts"][n[1]]["fn"]]["setup"]))
        shaped = [n for n in non_setup if dg["stmts"][n[1]]["k"] == "call" and not dg["stmts"][n[1]]["unpack"]
                  and spec["funcs"][dg["stmts"][n[1]]["fn"]]["ret"] in ("int", "bool", "tuple2", "dict", "list3")]
        with_succ = [n for n in shaped if any(m[0] == "s" for m in g["succ"][n])]
        if with_succ:
            i_node = d.pick(with_succ)
            o_node = d.pick(sorted(m for m in g["succ"][i_node] if m[0] == "s"))
            from .model import HistoryModel
            hm = HistoryModel(base_scn(spec, []))

            def al(n: Any) -> list:
                # (a string alias that is also a tag would name the tagged node instead: use the node itself then)
                return ["id", n[1]] if hm.alias_nodes(hm.inst["E:main"], ["id", n[1]]) == [n] else ["ref", n[1]]
            ops.append(dict(op="compose", inst="E:main", inputs=[al(i_node)], outputs=[al(o_node)], single=True, **{"as": "cmp"}))
            if d.bool(0.6):
                rt = spec["funcs"][dg["stmts"][i_node[1]]["fn"]]["ret"]
                # the supplied value has the shape the node would have produced (consumers may index it)
                ops.append(dict(op="call", inst="cmp", args=[d.pick(INPUT_VALUES[rt]) if rt in INPUT_VALUES else str(d.int(1, 50))]))
    flat = all(s_["k"] != "dag" for s_ in dg["stmts"])
    if selections and flat and d.bool(selections):
        sel = draw_selection(d, spec, "main", p_tag=0.4 if prof.get("p_tag") else 0.0)
        ops.append(dict(op="executor", inst="E:main", sel=sel, ex="e0"))
        if dg["has_setup"] and d.bool(0.35):
            ops.append(dict(op="setup", inst="E:main"))   # executor created before the setup nodes ran
        ops.append(dict(op="exrun", ex="e0", args=draw_args(d, dg)))
    else:
        ops.append(dict(op="call", inst="E:main", args=draw_args(d, dg)))
    scn = base_scn(spec, ops, profile_all=profile_all)
    if d.bool(0.15):
        # some node functions take virtual time (seconds): bounded waits inside the code under test expire while they run
        fnames = sorted(spec["funcs"])
        scn["slow"] = {f: d.pick([0.3, 1.5, 4.0]) for f in d.sample(fnames, d.int(1, min(2, len(fnames))))}
    return scn


P_C02 = gen.profile(**{**gen.SCHED, "swarm": ("resources", "p_dep", "max_args", "p_seq", "p_prio"), "p_flag": 0.25, "w_nested": 1.2,
                       "max_depth": 2, "p_kwarg": 0.3, "p_index": 0.5, "p_unpack": 0.4,
                       "ret_types": [("int", 5), ("bool", 2), ("tuple2", 3), ("list3", 1), ("dict", 1), ("none", 1)]})
P_C03 = gen.profile(**{**gen.SCHED, "swarm": ("resources", "p_dep", "max_args", "p_seq", "p_prio"), "w_nested": 1.2, "max_depth": 1,
                       "p_nested_flag": 0.3, "p_tag": 0.25, "p_tag_is_id": 0.3, "p_debug": 0.1, "p_setup_in_nested": 1.0, "p_reuse": 0.5, "p_setup": 0.12, "p_flag": 0.3, "p_unpack": 0.5, "p_fn_unpack": 0.1,
                       "ret_types": [("int", 4), ("bool", 2), ("tuple2", 3), ("dict", 1), ("none", 1)]})
P_C04 = gen.profile(**{**gen.SCHED, "swarm": ("resources", "p_dep", "max_args", "p_seq", "p_prio"), "shape_bias": [("wide", 3), ("uniform", 1)], "mc": (1, 3), "p_flag": 0.05, "p_setup": 0.15, "n_stmts": (1, 10), "w_nested": 0.8, "max_depth": 1,
                       "resources": [("thread", 4), ("async_thread", 3), ("main_thread", 2)]})
P_C05 = gen.profile(**{**gen.SCHED, "p_seq": 0.35, "mc": (2, 5), "n_stmts": (3, 10), "w_nested": 0.8, "max_depth": 1})
P_C06 = gen.profile(**{**gen.SCHED, "prio": (-3, 5), "p_prio": 0.85, "p_flag": 0.1})
P_C06D = gen.profile(**{**gen.SCHED, "prio": (-3, 5), "p_prio": 0.9, "p_flag": 0.05, "p_debug": 0.3, "n_stmts": (3, 10)})
P_C08 = gen.profile(**{**gen.SCHED, "mc": (2, 5), "n_stmts": (3, 10), "p_seq": 0.15, "p_setup": 0.1,
                       "shape_bias": [("uniform", 3), ("recent", 2), ("early", 1), ("wide", 1), ("join", 2), ("caterpillar", 3)]})
P_C09 = gen.profile(**{**gen.SCHED, "swarm": ("resources", "p_dep", "max_args", "p_seq", "p_prio"), "p_flag": 0.3, "p_seq": 0.25, "p_setup": 0.08,
                       "ret_types": [("int", 5), ("bool", 2), ("tuple2", 3), ("dict", 1)], "p_unpack": 0.4, "p_flag_sibling": 0.75})


P_C09L = gen.profile(**{**gen.SCHED, "resources": [("async_thread", 6), ("thread", 2), ("main_thread", 1)], "n_stmts": (2, 7), "mc": (2, 5),
                        "n_params": (0, 2), "p_flag": 0.1, "p_setup": 0.0, "p_dep": 0.5})


def g_c02(d: Draw) -> dict:
    scn = scn_sched(d, P_C02, compose=0.12, history=0.15)
    if d.bool(0.2):
        # one node function raises: nothing that depends on it may start (it has not returned)
        from .model import HistoryModel
        last = len(scn["clients"][0]) - 1
        exp = HistoryModel(scn).run_all().get((0, last, 0))
        paths = sorted(p for p, s_ in (exp.status.items() if exp is not None and exp.exec_paths is not None else []) if s_ == "exec")
        if paths:
            scn["faults"] = [dict(op=[0, last], path=[list(x) for x in d.pick(paths)], when=d.pick(["late", "early"]), kind="exc")]
    return scn


def g_c03(d: Draw) -> dict:
    scn = scn_sched(d, P_C03, selections=0.45, history=0.4, compose=0.08)
    if scn["program"]["dags"]["main"].get("has_debug"):
        scn["debug_on"] = d.bool(0.5)   # debug nodes run only when switched on, and only with all their inputs available
    return inner_setup_first(d, scn)


def inner_setup_first(d: Draw, scn: dict) -> dict:
    """Sometimes: an inner DAG is set up (or called) on its own BEFORE the outer DAG that nests it is described."""
    spec = scn["program"]
    main = spec["dags"]["main"]
    inner = [s_["dag"] for s_ in main["stmts"] if s_["k"] == "dag" and spec["dags"][s_["dag"]]["has_setup"]]
    if not inner or not d.bool(0.6):
        return scn
    others = [n for n in spec["order"] if n != "main"]
    pre: List[dict] = []
    for dn in sorted(set(inner)):
        if d.bool(0.5):
            pre.append(dict(op="setup", inst=f"E:{dn}"))
        else:
            pre.append(dict(op="call", inst=f"E:{dn}", args=draw_args(d, spec["dags"][dn], 0.3)))
    scn["prebuild"] = [dict(dags=others)]
    scn["clients"][0] = pre + [dict(op="build", dags=["main"])] + scn["clients"][0]
    return scn


def g_c04(d: Draw) -> dict:
    scn = scn_sched(d, P_C04, config=0.35, history=0.3, selections=0.3)
    if scn["program"]["dags"]["main"]["has_setup"] and d.bool(0.6):
        # an explicit setup() is an execution like any other: same limit, same threads
        ops = scn["clients"][0]
        ops.insert(len(ops) - 1 if ops[-1]["op"] == "call" else 0, dict(op="setup", inst="E:main"))
    return scn


def g_c05(d: Draw) -> dict:
    return scn_sched(d, P_C05, selections=0.3, config=0.15)


def g_c06(d: Draw) -> dict:
    if d.bool(0.25):
        scn = scn_sched(d, P_C06D, selections=0.8, config=0.1)
        scn["debug_on"] = d.bool(0.7)
        return scn
    return scn_sched(d, P_C06, selections=0.4, config=0.3, history=0.35)


def g_c08(d: Draw) -> dict:
    return scn_sched(d, P_C08, config=0.3, history=0.15, selections=0.15)


def g_c09(d: Draw) -> dict:
    mode = d.weighted([("faults", 6), ("cancel", 2), ("setup", 2), ("loopfault", 3)])
    if mode in ("cancel", "loopfault"):
        spec = gen.gen_program(d, P_C09 if mode == "cancel" else P_C09L)
        dg = spec["dags"]["main"]
        inst = "E:main" if dg["is_async"] else "A:main"
        calls = [dict(inst=inst, args=draw_args(d, dg)) for _ in range(d.int(1, 3))]
        if mode == "cancel":
            op: Dict[str, Any] = dict(op="gather", calls=calls, ticker=d.bool(0.5), cancel=dict(idx=d.int(0, len(calls) - 1), at=d.int(0, 8)))
        else:
            # a node fails while other async-thread nodes, whose completion needs the event loop to be served, are in flight:
            # the await must still raise (and the siblings finish) - nothing may park the loop thread on them
            op = dict(op="gather", calls=calls, ticker=True)
        scn = dict(program=spec, prebuild=[dict(dags=spec["order"]), dict(env="A", dags=spec["order"], flip_async=True)], clients=[[op]],
                   n_variants=1)
        if mode == "loopfault":
            scn["tick_nodes"] = "all"
            scn["tick_wait"] = d.int(1, 10)
            calls_idx = [i for i, s_ in enumerate(dg["stmts"]) if s_["k"] == "call" and not spec["funcs"][s_["fn"]]["setup"]]
            if calls_idx:
                scn["faults"] = [dict(op=[0, 0, d.int(0, len(calls) - 1)], path=[["main", d.pick(calls_idx)]],
                                      when=d.pick(["early", "early", "early", "late"]), kind=d.pick(["exc", "exc", "base"]))]
        if op["ticker"]:
            scn["fair_only"] = True
        d.choice(1)
        return scn
    scn = scn_sched(d, P_C09, selections=0.25, history=0.2)
    if mode == "setup":
        scn["clients"][0].insert(0, dict(op="setup", inst="E:main"))
    return with_fault_variants(d, scn, pairs=2, none_first=True)


class Prop:
    def __init__(self, pid: str, gen_fn: Callable[[Draw], dict], clauses: Dict[str, str], *,
                 level: str = "exploration", strategies: Optional[List[str]] = None, n_sched: int = 3,
                 quick: int = 4000, thorough: int = 150000, watchdog: bool = True,
                 nontrivial: str = "concurrent", technique: str = "", fault_enum: bool = False,
                 hashseeds: Optional[List[str]] = None) -> None:
        self.pid, self.gen, self.clauses, self.level = pid, gen_fn, clauses, level
        self.strategies = strategies or ["uniform", "sticky", "pct2", "pct3", "fifo2", "stall"]
        self.n_sched, self.quick, self.thorough, self.watchdog = n_sched, quick, thorough, watchdog
        self.nontrivial = nontrivial
        self.technique = technique
        self.fault_enum = fault_enum
        self.hashseeds = hashseeds


PROPS: Dict[str, Prop] = {}


def reg(p: Prop) -> None:
    PROPS[p.pid] = p


reg(Prop("C02", g_c02, {"order": "C02.a", "dependent_of_failed": "C02.a", "args": "C02.b"}))
reg(Prop("C03", g_c03, {"count_missing": "C03.a", "count_dup": "C03.a", "count_extra": "C03.b", "deact_ran": "C03.b",
                        "debug_input_missing": "C03.b"}))
reg(Prop("C04", g_c04, {"maxconc": "C04.a", "thread_pool": "C04.b", "thread_main": "C04.c"}))
reg(Prop("C05", g_c05, {"seq_enter": "C05.a", "seq_during": "C05.b"}))
reg(Prop("C06", g_c06, {"prio": "C06.a"}))
# (idling shows when some nodes are slow while others finish: the stall strategy - chosen functions finish / start last - gets
# half of the schedules)
reg(Prop("C08", g_c08, {"idle": "C08.a", "idle_during": "C08.b"},
         strategies=["uniform", "stall", "sticky", "stall", "pct2", "stall", "pct3", "stall", "fifo2", "stall"]))
reg(Prop("C09", g_c09, {"deadlock": "C09.a", "livelock": "C09.b", "early_return": "C09.c", "count_missing": "C09.c"},
         watchdog=True, fault_enum=True, n_sched=2, quick=600, thorough=12000, level="fault_enumeration", nontrivial="all"))


# ----------------------------------------------------------------------------- value equivalence family
def scn_value(d: Draw, prof: dict, *, n_calls: int = 2, config: float = 0.15) -> dict:
    spec = gen.gen_program(d, prof)
    dg = spec["dags"]["main"]
    ops: List[dict] = []
    if config and d.bool(config):
        conf: Dict[str, Any] = {"max_concurrency": d.int(1, 5)}
        nodes = []
        top_calls = [i for i, s in enumerate(dg["stmts"]) if s["k"] == "call"]
        for idx in d.sample(top_calls, d.int(0, min(2, len(top_calls)))):
            nodes.append([["id", idx], d.pick([{"priority": d.int(-3, 6), "is_sequential": d.bool(0.4)}, {"priority": d.int(-3, 6)},
                                               {"is_sequential": d.bool(0.5)}])])
        if nodes:
            conf["nodes"] = nodes
        ops.append(dict(op="config", inst="E:main", cfg=conf, how=d.pick(["dict", "json", "yaml"])))
    for _ in range(d.count(1, n_calls, 0.5)):
        ops.append(dict(op="call", inst="E:main", args=draw_args(d, dg)))
    return base_scn(spec, ops)


P_C01 = gen.profile()
P_C10 = gen.profile(p_flag=0.6, p_flag_const=0.3, w_nested=2.5, p_nested_flag=0.6, w_op=2.5, n_stmts=(2, 8), p_p6=0.15)
P_C20 = gen.profile(w_nested=7, max_depth=3, p_explicit_default=0.8, p_default=0.6, n_params=(1, 3), p_flag=0.12,
                    p_nested_flag=0.15, p_same_inner_twice=0.08, n_stmts=(1, 6), p_reuse=0.5, p_inner_const=0.004)


def g_c01(d: Draw) -> dict:
    return scn_value(d, P_C01)


P_C10F = gen.profile(p_flag=0.6, p_flag_const=0.15, w_nested=0, w_op=1.5, n_stmts=(3, 8), n_params=(0, 2))


def g_c10(d: Draw) -> dict:
    if d.bool(0.15):
        scn = scn_flag_compose(d)
        if scn is not None:
            return scn
    return scn_value(d, P_C10, config=0.05)


def scn_flag_compose(d: Draw) -> Optional[dict]:
    """A DAG composed from one whose activation flags are produced by nodes that become INPUTS of the composition: each switched
    node must follow the value supplied for its own flag (by producer and key), whatever the order of the inputs."""
    spec = gen.gen_program(d, P_C10F)
    dg = spec["dags"]["main"]
    g = flat_graph(spec, "main")
    stmts = sorted(n for n in g["nodes"] if n[0] == "s")
    by_out = {o: i for i, s_ in enumerate(dg["stmts"]) for o in s_["out"]}
    pidx = {x[0]: j for j, x in enumerate(dg["params"])}
    prod = set()
    for s_ in dg["stmts"]:
        fl = s_.get("flag")
        if fl and fl[0] == "v":
            if fl[1] in by_out and dg["stmts"][by_out[fl[1]]]["k"] == "call":
                prod.add(("s", by_out[fl[1]]))
            elif fl[1] in pidx:
                prod.add(("p", pidx[fl[1]]))
    # (the history model substitutes whole results only: call-site unpacked statements are not offered as inputs)
    unpacked = {("s", i) for i, s_ in enumerate(dg["stmts"]) if s_["k"] == "call" and s_["unpack"]}
    prod_l = sorted(prod - unpacked)
    if not prod_l:
        return None
    # (operator statements are not offered as inputs either: the supplied value would need the operator's result type)
    others = [n for n in stmts + sorted(n for n in g["nodes"] if n[0] == "p") if n not in prod and n not in unpacked
              and (n[0] == "p" or dg["stmts"][n[1]]["k"] == "call")]
    in_nodes = d.sample(prod_l, d.int(1, min(2, len(prod_l)))) + d.sample(others, d.int(0, min(2, len(others))))
    in_nodes = d.sample(in_nodes, len(in_nodes))   # random order: the flag producer is not always last
    cand_out = [n for n in stmts if n not in in_nodes]
    if not cand_out:
        return None
    outs = d.sample(cand_out, d.int(1, min(3, len(cand_out))))
    ops: List[dict] = [dict(op="compose", inst="E:main", inputs=[alias_for(d, spec, "main", n) for n in in_nodes],
                            outputs=[alias_for(d, spec, "main", n) for n in outs], single=False, **{"as": "cmp"})]
    for _ in range(d.int(1, 2)):
        vals = []
        for n in in_nodes:
            rt = "int"
            if n[0] == "s" and dg["stmts"][n[1]]["k"] == "call":
                rt = spec["funcs"][dg["stmts"][n[1]]["fn"]]["ret"]
            vals.append(d.pick(INPUT_VALUES[rt]) if rt in INPUT_VALUES else d.pick(["0", "1", "7", "True", "False"]))
        ops.append(dict(op="call", inst="cmp", args=vals))
    ops.append(dict(op="call", inst="E:main", args=draw_args(d, dg)))
    return base_scn(spec, ops)


P_C20B = gen.profile(w_nested=0, n_stmts=(3, 9), p_flag=0.1, p_async=0.0, p_setup=0.0, p_debug=0.0, p_default=0.6, n_params=(0, 2), p_unpack=0.3,
                     ret_types=[("int", 6), ("bool", 2), ("tuple2", 2), ("dict", 1)])
P_C20O = gen.profile(w_nested=6, max_depth=1, p_explicit_default=0.8, p_default=0.6, n_params=(0, 2), p_flag=0.1, n_stmts=(1, 5),
                     p_nested_flag=0.0, p_pass=0.2)


def g_c20(d: Draw) -> dict:
    if d.bool(0.12):
        scn = scn_nest_composed(d)
        if scn is not None:
            return scn
    return scn_value(d, P_C20, config=0.05)


def scn_nest_composed(d: Draw) -> Optional[dict]:
    """A DAG obtained with compose() is a DAG like any other: nested in a describing function it behaves as if the composed
    part had been written in place (its node table is not in description order: compose builds it from a set)."""
    pg = gen.ProgramGen(d, P_C20B)
    pg.gen_dag(0, "base")
    bd = pg.dags["base"]
    calls = [i for i, s_ in enumerate(bd["stmts"]) if s_["k"] == "call" and not s_["unpack"]]
    in_c = [i for i in calls if pg.funcs[bd["stmts"][i]["fn"]]["ret"] in ("int", "bool") and bd["stmts"][i]["flag"] is None]
    if not calls:
        return None
    outs = d.sample(calls, d.int(1, min(3, len(calls))))
    ins = [i for i in d.sample(in_c, d.int(0, min(2, len(in_c)))) if i not in outs]
    # an input must not depend on another input (refused by compose): keep the inputs that no other input feeds
    g = flat_graph({"dags": pg.dags}, "base")
    from .ref import gen_descendants
    desc = gen_descendants(g["succ"])
    ins = [i for i in ins if not any(("s", i) in desc[("s", j)] for j in ins if j != i)]
    der = gen.derive_composed(pg.dags, pg.funcs, "base", ins, outs, "cmpd")
    if der is None:
        return None
    pg.dags["cmpd"] = der
    pg.order.append("cmpd")
    bd["no_nest"] = True   # (a top-level DAG: may return nothing or a constant)
    pg.prof = P_C20O
    for _ in range(4):
        # (describe main until it nests the composed DAG; bounded retries keep the draw count finite)
        pg.dags.pop("main", None)
        if "main" in pg.order:
            pg.order.remove("main")
        pg.gen_dag(0, "main")
        if any(s_["k"] == "dag" and s_["dag"] == "cmpd" for s_ in pg.dags["main"]["stmts"]):
            break
    else:
        return None
    spec = {"funcs": pg.funcs, "dags": pg.dags, "order": pg.order, "main": "main"}
    dg = spec["dags"]["main"]
    ops = [dict(op="call", inst="E:main", args=draw_args(d, dg)) for _ in range(d.count(1, 2, 0.5))]
    return base_scn(spec, ops)


reg(Prop("C01", g_c01, {"value": "C01.a", "raise": "C01.b", "build_raise": "C01.b"}, nontrivial="multi", n_sched=3))
reg(Prop("C10", g_c10, {"deact_ran": "C10.a", "count_missing": "C10.a", "value": "C10.b", "args": "C10.c", "raise": "C10.e",
                        "build_raise": "C10.e", "livelock": "C10.c", "deadlock": "C10.c"}, nontrivial="multi", n_sched=2))
reg(Prop("C20", g_c20, {"value": "C20.a", "raise": "C20.a", "args": "C20.b", "count_missing": "C20.b", "count_extra": "C20.b",
                        "build_raise": "C20.c"}, nontrivial="multi", n_sched=2))


# ----------------------------------------------------------------------------- fault enumeration (C14, C09 failure part)
P_C14 = gen.profile(**{**gen.SCHED, "swarm": ("resources", "p_dep", "max_args", "p_seq", "p_prio"), "n_stmts": (2, 7), "p_flag": 0.15, "p_seq": 0.2,
                       "resources": [("thread", 4), ("async_thread", 3), ("main_thread", 3)]})


def with_fault_variants(d: Draw, scn: dict, pairs: int = 3, none_first: bool = False) -> dict:
    """Enumerate the failing node over every reference-executed call site of the last operation x {late, early, BaseException},
    plus sampled pairs.  The variant index is the LAST draw so that a worker can enumerate all variants of one program."""
    from .model import HistoryModel
    ops = scn["clients"][0]
    last = len(ops) - 1
    exp = HistoryModel(scn).run_all().get((0, last, 0))
    paths = sorted(p for p, s in (exp.status.items() if exp is not None and exp.exec_paths is not None else []) if s == "exec")
    variants: List[list] = [[]] if none_first else []
    for p in paths:
        for when, kind in (("late", "exc"), ("early", "exc"), ("late", "base"), ("late", "exc2")):
            variants.append([dict(op=[0, last], path=[list(x) for x in p], when=when, kind=kind)])
    if len(paths) >= 2:
        for _ in range(pairs):
            a, b = d.sample(paths, 2)
            variants.append([dict(op=[0, last], path=[list(x) for x in a], when=d.pick(["late", "early"]), kind="exc"),
                             dict(op=[0, last], path=[list(x) for x in b], when="late", kind=d.pick(["exc", "base"]))])
    if not variants:
        variants = [[]]
    v = d.choice(len(variants))
    scn["faults"] = variants[v]
    scn["n_variants"] = len(variants)
    return scn


def g_c14(d: Draw) -> dict:
    scn = scn_sched(d, P_C14, selections=0.15)
    return with_fault_variants(d, scn)


reg(Prop("C14", g_c14, {"noraise": "C14.a", "fail_identity": "C14.b", "dependent_of_failed": "C14.c",
                        "dispatch_after_failure": "C14.d", "wrongexc": "C14.e"},
         level="fault_enumeration", fault_enum=True, n_sched=4, quick=250, thorough=5000, nontrivial="all"))


# ----------------------------------------------------------------------------- C07 compound priority
P_C07 = gen.profile(**{**gen.SCHED, "prio": (-3, 6), "p_prio": 0.9, "p_tag": 0.3, "p_reuse": 0.5, "p_flag": 0.06, "p_dep": 0.9, "max_args": 3, "n_stmts": (3, 10),
                       "shape_bias": [("uniform", 2), ("recent", 2), ("early", 2)], "p_seq": 0.1, "w_nested": 1.0, "max_depth": 1,
                       "ret_shapes": [("tuple", 1)], "all_return": False, "n_params": (0, 2), "p_async": 0.2})


def g_c07(d: Draw) -> dict:
    dbg = d.bool(0.2)
    spec = gen.gen_program(d, P_C07D if dbg else P_C07)
    dg = spec["dags"]["main"]
    flat = all(s["k"] != "dag" for s in dg["stmts"])
    ops: List[dict] = [dict(op="cprio", inst="E:main")]
    if d.bool(0.3):
        # the DAG has already been called when it is re-configured: nothing computed for the old priorities may survive
        ops.insert(0, dict(op="call", inst="E:main", args=draw_args(d, dg)))
    if d.bool(0.4):
        nodes = []
        calls = [i for i, s in enumerate(dg["stmts"]) if s["k"] != "dag"]
        for idx in d.sample(calls, d.int(1, min(3, len(calls)))) if calls else []:
            nodes.append([["id", idx], {"priority": d.int(-3, 6)}])
        tags = sorted({t for f in spec["funcs"].values() for t in ([f["tag"]] if isinstance(f["tag"], str) else (f["tag"] or []))})
        if tags and flat and d.bool(0.5):
            # (flat programs only: a tag also addresses the spliced nodes of nested DAGs, which the model does not follow)
            # one entry addressed by a tag: every node carrying the tag gets the value (instead of the id entries: an id and a
            # tag entry for the same node are refused)
            nodes = [[["tag", d.pick(tags)], {"priority": d.int(-3, 6)}]]
        if nodes:
            ops.append(dict(op="config", inst="E:main", cfg={"nodes": nodes}, how=d.pick(["dict", "yaml", "json"])))
            ops.append(dict(op="cprio", inst="E:main"))
    if d.bool(0.3):
        ops.append(dict(op="deepcopy", inst="E:main", **{"as": "B"}))
        ops.append(dict(op="cprio", inst="B"))
    if flat and d.bool(0.3):
        # a DAG composed from this one has its own table (its node set is built from a Python set of ids)
        g = flat_graph(spec, "main")
        stmts = sorted(n for n in g["nodes"] if n[0] == "s")
        outs = d.sample(stmts, d.int(1, min(2, len(stmts))))
        ins = [n for n in d.sample(stmts, d.int(0, 2)) if n not in outs]
        ops.append(dict(op="compose", inst="E:main", inputs=[["id", n[1]] for n in ins], outputs=[["id", n[1]] for n in outs],
                        single=False, **{"as": "cmp"}))
        ops.append(dict(op="cprio", inst="cmp"))
    if flat and d.bool(0.5):
        sel = draw_selection(d, spec, "main")
        ops.append(dict(op="executor", inst="E:main", sel=sel, ex="e0"))
        ops.append(dict(op="cprio", ex="e0"))
        ops.append(dict(op="config", inst="E:main", cfg={"max_concurrency": 1}, how="dict"))
        ops.append(dict(op="executor", inst="E:main", sel=sel, ex="e1"))
        ops.append(dict(op="exrun", ex="e1", args=draw_args(d, dg)))
    else:
        ops.append(dict(op="config", inst="E:main", cfg={"max_concurrency": 1}, how="dict"))
        ops.append(dict(op="call", inst="E:main", args=draw_args(d, dg)))
    return base_scn(spec, ops, debug_on=dbg and d.bool(0.7))


P_C07D = gen.profile(**{**P_C07, "p_debug": 0.3, "w_nested": 0})
reg(Prop("C07", g_c07, {"cprio_table": "C07.a", "order_mc1": "C07.d", "raise": "C07.a"}, nontrivial="multi", n_sched=2,
         quick=3000, thorough=100000, hashseeds=["0", "1", "2", "3"]))


# ----------------------------------------------------------------------------- selection / debug / setup family
P_C12 = gen.profile(**{**gen.GRAPH, "p_setup": 0.12, "p_debug": 0.08, "n_stmts": (2, 12), "p_tag": 0.35, "p_tag_is_id": 0.3,
                       "ret_types": [("int", 6), ("tuple2", 2), ("dict", 1), ("none", 1)], "p_index": 0.0, "p_keyed_return": 0.5})
P_C13 = gen.profile(**{**gen.GRAPH, "p_debug": 0.35, "p_setup": 0.08, "n_stmts": (2, 10)})
P_C11 = gen.profile(**{**gen.GRAPH, "p_setup": 0.4, "n_stmts": (2, 9), "p_tag": 0.35, "p_reuse": 0.4})


def g_c12(d: Draw) -> dict:
    spec = gen.gen_program(d, P_C12)
    dg = spec["dags"]["main"]
    ops: List[dict] = []
    if dg["has_setup"] and d.bool(0.4):
        ops.append(dict(op="setup", inst="E:main"))
    n = d.count(1, 3, 0.5)
    for j in range(n):
        sel = draw_selection(d, spec, "main", p_R=0.4, p_X=0.45, p_T=0.65, p_invalid=0.12, p_tag=0.3)
        ops.append(dict(op="executor", inst="E:main", sel=sel, ex=f"e{j}"))
        ops.append(dict(op="exrun", ex=f"e{j}", args=draw_args(d, dg)))
    return base_scn(spec, ops, debug_on=False)


P_C13N = gen.profile(**{**gen.GRAPH, "p_debug": 0.4, "p_setup": 0.0, "n_stmts": (3, 8), "w_nested": 3, "max_depth": 1, "all_return": False,
                        "n_params": (1, 2), "p_default": 0.3, "p_pass": 0.0})


def g_c13(d: Draw) -> dict:
    if d.bool(0.06):
        # build-time rejection across a nesting: a debug node's value handed to a nested DAG (argument or switch) would make
        # production nodes of the inner DAG depend on a debug node
        spec = gen.gen_program(d, P_C13N)
        dg = spec["dags"]["main"]
        pairs = []
        for i, s_ in enumerate(dg["stmts"]):
            if s_["k"] == "call" and spec["funcs"][s_["fn"]]["debug"] and not s_["unpack"]:
                for j in range(i + 1, len(dg["stmts"])):
                    t_ = dg["stmts"][j]
                    if t_["k"] == "dag" and (t_["args"] or spec["dags"][t_["dag"]]["flaggable"]) and not spec["dags"][t_["dag"]]["has_debug"]:
                        pairs.append((i, j))
        if pairs:
            i, j = d.pick(pairs)
            t_ = dg["stmts"][j]
            src = ["v", dg["stmts"][i]["out"][0], []]
            if t_["args"] and (not spec["dags"][t_["dag"]]["flaggable"] or d.bool(0.7)):
                t_["args"][d.choice(len(t_["args"]))] = src
            else:
                t_["flag"] = src
            return dict(program=spec, clients=[[dict(op="build", dags=spec["order"], expect_raise=["TawaziBaseException"])]],
                        debug_on=d.bool(0.5))
    spec = gen.gen_program(d, P_C13)
    dg = spec["dags"]["main"]
    debug_on = d.bool(0.5)
    if d.bool(0.08):
        # build-time rejection: a non-debug node consuming a debug node's result
        dbg = [s for s in dg["stmts"] if s["k"] == "call" and spec["funcs"][s["fn"]]["debug"]]
        nd = [s for s in dg["stmts"] if s["k"] == "call" and not spec["funcs"][s["fn"]]["debug"] and not spec["funcs"][s["fn"]]["setup"]]
        later = [(a, b) for a in dbg for b in nd if dg["stmts"].index(b) > dg["stmts"].index(a)]
        if later:
            a, b = d.pick(later)
            ch = d.pick(["arg", "kwarg", "flag"])
            if ch == "arg":
                b["args"] = list(b["args"]) + [["v", a["out"][0], []]]
            elif ch == "kwarg":
                b["kwargs"] = [kv for kv in b["kwargs"] if kv[0] != "dbgk"] + [["dbgk", ["v", a["out"][0], []]]]
            else:
                b["flag"] = ["v", a["out"][0], []]
            scn = dict(program=spec, clients=[[dict(op="build", dags=spec["order"], expect_raise=["TawaziBaseException"])]], debug_on=debug_on)
            return scn
    ops: List[dict] = []
    dbg_idx = [i for i, s_ in enumerate(dg["stmts"]) if s_["k"] == "call" and spec["funcs"][s_["fn"]]["debug"]]
    if dbg_idx and d.bool(0.3):
        # re-configuring a debug node (its priority / sequentiality) leaves it a debug node
        nodes = []
        for i in d.sample(dbg_idx, d.int(1, min(2, len(dbg_idx)))):
            nodes.append([["id", i], {"priority": d.int(-3, 6)} if d.bool(0.6) else {"is_sequential": d.bool(0.5)}])
        ops.append(dict(op="config", inst="E:main", cfg={"nodes": nodes}, how=d.pick(["dict", "json", "yaml"])))
    for _ in range(d.count(1, 3, 0.5)):
        mode = d.weighted([("call", 4), ("exec", 5), ("setup", 1)])
        if mode == "call":
            ops.append(dict(op="call", inst="E:main", args=draw_args(d, dg)))
        elif mode == "setup":
            ops.append(dict(op="setup", inst="E:main"))
        else:
            j = len(ops)
            sel = draw_selection(d, spec, "main", p_R=0.3, p_X=0.3, p_T=0.7)
            ops.append(dict(op="executor", inst="E:main", sel=sel, ex=f"e{j}"))
            ops.append(dict(op="exrun", ex=f"e{j}", args=draw_args(d, dg)))
    return base_scn(spec, ops, debug_on=debug_on)


def g_c11(d: Draw) -> dict:
    spec = gen.gen_program(d, P_C11)
    dg = spec["dags"]["main"]
    if d.bool(0.07):
        # build-time rejection: a setup node fed by a DAG parameter or by a non-setup node
        st = [s for s in dg["stmts"] if s["k"] == "call" and spec["funcs"][s["fn"]]["setup"]]
        if st:
            b = d.pick(st)
            idx = dg["stmts"].index(b)
            plain = [s for s in dg["stmts"][:idx] if s["k"] == "call" and not spec["funcs"][s["fn"]]["setup"] and not spec["funcs"][s["fn"]]["debug"]]
            how = d.pick(["param", "node"])
            if how == "node" and plain:
                ch = d.pick(["arg", "kwarg", "flag"])
                src = ["v", d.pick(plain)["out"][0], []]
                if ch == "arg":
                    b["args"] = list(b["args"]) + [src]
                elif ch == "kwarg":
                    b["kwargs"] = list(b["kwargs"]) + [["extra", src]]
                else:
                    b["flag"] = src
                return dict(program=spec, clients=[[dict(op="build", dags=spec["order"], expect_raise=["TawaziBaseException"])]])
            if dg["params"]:
                src = ["v", dg["params"][0][0], []]
                ch = d.pick(["arg", "kwarg", "flag"])
                if ch == "arg":
                    b["args"] = list(b["args"]) + [src]
                elif ch == "kwarg":
                    b["kwargs"] = list(b["kwargs"]) + [["extra", src]]
                else:
                    b["flag"] = src
                return dict(program=spec, clients=[[dict(op="build", dags=spec["order"], expect_raise=["TawaziUsageError", "TawaziBaseException"])]])
    ops: List[dict] = []
    cur = "E:main"
    ncopy = 0
    pending: List[str] = []
    for _ in range(d.count(2, 8, 0.7)):
        mode = d.weighted([("call", 4), ("exec", 4), ("exsetup", 2), ("setup", 2), ("setupsel", 2), ("copy", 1), ("mkexec", 2),
                           ("runexec", 3)])
        j = len(ops)
        if mode == "mkexec":
            sel = draw_selection(d, spec, "main", p_R=0.1, p_X=0.25, p_T=0.7, p_tag=0.35)
            ops.append(dict(op="executor", inst=cur, sel=sel, ex=f"p{j}"))
            pending.append(f"p{j}")
            continue
        if mode == "runexec":
            if pending:
                ops.append(dict(op="exrun", ex=pending.pop(d.choice(len(pending))), args=draw_args(d, dg)))
            continue
        if mode == "call":
            ops.append(dict(op="call", inst=cur, args=draw_args(d, dg)))
        elif mode == "exec":
            sel = draw_selection(d, spec, "main", p_R=0.15, p_X=0.3, p_T=0.8, p_tag=0.35)
            ops.append(dict(op="executor", inst=cur, sel=sel, ex=f"e{j}"))
            ops.append(dict(op="exrun", ex=f"e{j}", args=draw_args(d, dg)))
        elif mode == "exsetup":
            sel = draw_selection(d, spec, "main", p_R=0.0, p_X=0.3, p_T=0.8, p_tag=0.35)
            ops.append(dict(op="executor", inst=cur, sel=sel, ex=f"e{j}"))
            ops.append(dict(op="exsetup", ex=f"e{j}"))
        elif mode == "setup":
            ops.append(dict(op="setup", inst=cur))
        elif mode == "setupsel":
            sel = draw_selection(d, spec, "main", p_R=0.15, p_X=0.25, p_T=0.9, p_tag=0.35)
            ops.append(dict(op="setup", inst=cur, sel=sel))
        else:
            ncopy += 1
            new = f"K{ncopy}"
            ops.append(dict(op="deepcopy", inst=cur, **{"as": new}))
            if d.bool(0.6):
                cur = new
    return base_scn(spec, ops)


reg(Prop("C12", g_c12, {"graph": "C12.a", "count_missing": "C12.b", "count_extra": "C12.b", "value": "C12.c", "noraise": "C12.d",
                        "wrongexc": "C12.d", "raise": "C12.c"}, nontrivial="multi", n_sched=2, quick=4000))
reg(Prop("C13", g_c13, {"count_extra": "C13.a", "count_missing": "C13.b", "debug_input_missing": "C13.c", "value": "C13.d",
                        "args": "C13.d", "noraise": "C13.e", "wrongexc": "C13.e", "raise": "C13.d", "graph": "C13.a"},
         nontrivial="multi", n_sched=2, quick=4000))
reg(Prop("C11", g_c11, {"count_extra": "C11.a", "count_missing": "C11.c", "args": "C11.b", "value": "C11.b", "noraise": "C11.e",
                        "wrongexc": "C11.e", "raise": "C11.b"}, nontrivial="multi", n_sched=2, quick=4000))


# ----------------------------------------------------------------------------- cache / compose / leak family
P_C18 = gen.profile(**{**gen.GRAPH, "p_setup": 0.1, "n_stmts": (2, 9), "p_flag": 0.15, "p_tag": 0.0, "n_params": (0, 3),
                       "ret_types": [("int", 5), ("none", 1)]})
P_C19 = gen.profile(**{**gen.GRAPH, "p_setup": 0.1, "n_stmts": (2, 10), "p_flag": 0.2, "p_default": 0.5, "n_params": (0, 3), "p_tag": 0.25, "p_tag_is_id": 0.35,
                       "p_index": 0.6, "p_kwarg": 0.3, "ret_types": [("int", 5), ("tuple2", 3), ("dict", 2), ("list3", 1), ("none", 1)]})

P_C15 = gen.profile(**{**gen.SCHED, "p_setup": 0.0, "n_stmts": (2, 8), "p_flag": 0.15, "n_params": (1, 3), "p_default": 0.5,
                       "prio": (-2, 5), "p_prio": 0.7, "p_tag": 0.15})


def g_c18(d: Draw) -> dict:
    spec = gen.gen_program(d, P_C18)
    dg = spec["dags"]["main"]
    args = draw_args(d, dg)
    stmts = list(range(len(dg["stmts"])))
    mode = d.weighted([("whole", 3), ("target", 3), ("deps", 4)])
    ops: List[dict] = []
    if dg["has_setup"] and d.bool(0.3):
        ops.append(dict(op="setup", inst="E:main"))
    T = [["id", i] for i in d.sample(stmts, d.int(1, min(2, len(stmts))))]
    if mode == "whole":
        ops.append(dict(op="executor", inst="E:main", ex="w", cache_in="c.pkl"))
    elif mode == "target":
        ops.append(dict(op="executor", inst="E:main", ex="w", sel={"T": T}, cache_in="c.pkl"))
    else:
        if d.bool(0.6):
            T = T[:1]
        ops.append(dict(op="executor", inst="E:main", ex="w", cache_deps_of=T, cache_in="c.pkl"))
    ops.append(dict(op="exrun", ex="w", args=args))
    ops.append(dict(op="read_cache", file="c.pkl", inst="E:main"))
    if mode == "whole":
        ops.append(dict(op="executor", inst="E:main", ex="r", from_cache="c.pkl"))
    elif mode == "target":
        ops.append(dict(op="executor", inst="E:main", ex="r", sel={"T": T}, from_cache="c.pkl"))
    else:
        ops.append(dict(op="executor", inst="E:main", ex="r", cache_deps_of=T, from_cache="c.pkl"))
    # a restart with other arguments supplies all of them (omitted ones would come from the cache file, not from the defaults)
    fresh = d.bool(0.3)
    if fresh:
        ops[-1]["inst"] = "F:main"   # restart on a freshly built instance (nothing set up, nothing computed)
    ops.append(dict(op="exrun", ex="r", args=draw_args(d, dg, 0.0) if d.bool(0.35) else args))
    if mode != "deps" and d.bool(0.25):
        # refresh in place: restart from the file and write the results back to the same file
        ops.append(dict(op="executor", inst="E:main", ex="rw", from_cache="c.pkl", cache_in="c.pkl",
                        **({"sel": {"T": T}} if mode == "target" else {})))
        ops.append(dict(op="exrun", ex="rw", args=args))
        ops.append(dict(op="read_cache", file="c.pkl", inst="E:main"))
    if d.bool(0.3):
        # second round on the SAME path with another selection: the file is rewritten, the restart must see the new content
        ops.append(dict(op="executor", inst="E:main", ex="w2", cache_in="c.pkl"))
        early = d.bool(0.5)
        if early:
            # the restarting executor object exists before the file is rewritten: the file is read when the restart STARTS
            ops.append(dict(op="executor", inst="E:main", ex="r2", from_cache="c.pkl"))
        ops.append(dict(op="exrun", ex="w2", args=args))
        ops.append(dict(op="read_cache", file="c.pkl", inst="E:main"))
        if not early:
            ops.append(dict(op="executor", inst="E:main", ex="r2", from_cache="c.pkl"))
        ops.append(dict(op="exrun", ex="r2", args=args))
    scn = base_scn(spec, ops)
    scn["prebuild"].append(dict(env="F", dags=spec["order"]))
    calls_idx = [i for i, s_ in enumerate(dg["stmts"]) if s_["k"] == "call" and not spec["funcs"][s_["fn"]]["setup"]]
    if mode == "whole" and calls_idx and d.bool(0.25):
        # a later caching run on the same path FAILS: the earlier, good file must stay usable
        j = len(ops)
        ops.append(dict(op="executor", inst="E:main", ex="wf", cache_in="c.pkl"))
        ops.append(dict(op="exrun", ex="wf", args=args))
        scn["faults"] = [dict(op=[0, j + 1], path=[["main", d.pick(calls_idx)]], when="late", kind="exc")]
        ops.append(dict(op="executor", inst="E:main", ex="rf", from_cache="c.pkl"))
        ops.append(dict(op="exrun", ex="rf", args=args))
    return scn


def g_c19(d: Draw) -> dict:
    spec = gen.gen_program(d, P_C19)
    dg = spec["dags"]["main"]
    g = flat_graph(spec, "main")
    stmts = sorted(n for n in g["nodes"] if n[0] == "s")
    params = sorted(n for n in g["nodes"] if n[0] == "p")
    ops: List[dict] = [dict(op="snapshot", inst="E:main"), dict(op="call", inst="E:main", args=draw_args(d, dg, 0.3))]
    from .model import HistoryModel
    hm = HistoryModel(base_scn(spec, []))
    st0 = hm.inst["E:main"]
    for j in range(d.count(1, 2, 0.3)):
        if d.bool(0.08):
            ins: Any = "..."
            in_nodes = list(params)
        else:
            # a setup node as input would make its setup dependents depend on a DAG argument (rejected by design, C11)
            non_setup = [n for n in stmts if not (dg["stmts"][n[1]]["k"] == "call" and spec["funcs"][dg["stmts"][n[1]]["fn"]]["setup"])]
            in_nodes = d.sample(non_setup + params, d.int(0, min(3, len(stmts))))
            ins = [alias_for(d, spec, "main", n) for n in in_nodes]
            # a string alias that is also a tag names the TAGGED node (tags win over ids): keep such an alias only when it
            # still names one non-setup node that is not an input already; the scenario then cuts at that node
            for q, (n, a) in enumerate(zip(list(in_nodes), list(ins))):
                r = hm.alias_nodes(st0, a)
                if r != [n]:
                    if r != "ValueError" and len(r) == 1 and r[0] in non_setup and r[0] not in in_nodes:
                        in_nodes[q] = r[0]
                    else:
                        ins[q] = ["ref", n[1]] if n[0] == "s" else a
        cand_out = [n for n in stmts if n not in in_nodes]
        if not cand_out:
            continue
        outs = d.sample(cand_out, d.int(1, min(2, len(cand_out))))
        out_al = [alias_for(d, spec, "main", n) for n in outs]
        for q, (n, a) in enumerate(zip(list(outs), list(out_al))):
            r = hm.alias_nodes(st0, a)
            if r != [n]:
                if r != "ValueError" and len(r) == 1 and r[0] not in in_nodes and r[0] not in outs:
                    outs[q] = r[0]
                else:
                    out_al[q] = ["ref", n[1]]
        single = len(outs) == 1 and d.bool(0.5)
        name = f"cmp{j}"
        ops.append(dict(op="compose", inst="E:main", inputs=ins, outputs=out_al, single=single,
                        **{"as": name}, is_async=d.pick([None, None, True, False]), mc=d.pick([None, None, 2, 4])))
        vals = []
        for n in in_nodes:
            rt = "int"
            if n[0] == "s" and dg["stmts"][n[1]]["k"] == "call":
                rt = spec["funcs"][dg["stmts"][n[1]]["fn"]]["ret"]
            # the supplied value has the shape of what the node would have produced (its consumers may index it)
            vals.append(d.pick(INPUT_VALUES[rt]) if rt in INPUT_VALUES else str(d.int(1, 60)))
        ops.append(dict(op="call", inst=name, args=vals))
    ops.append(dict(op="call", inst="E:main", args=draw_args(d, dg, 0.3)))
    ops.append(dict(op="snapshot", inst="E:main"))
    return base_scn(spec, ops)


P_C15S = gen.profile(**{**gen.SCHED, "p_setup": 0.2, "n_stmts": (2, 7), "p_flag": 0.1, "n_params": (1, 3), "p_default": 0.7})


def g_c15(d: Draw) -> dict:
    if d.bool(0.1):
        # setup results are the only state a DAG keeps: the run that first executes the setup nodes gets explicit values for the
        # defaulted parameters, a later call omits them and must see the declared defaults
        spec = gen.gen_program(d, P_C15S)
        dg = spec["dags"]["main"]
        ops = [dict(op="results_keys", inst="E:main")]
        if d.bool(0.4):
            ops.append(dict(op="executor", inst="E:main", sel=draw_selection(d, spec, "main", p_R=0.0, p_X=0.1, p_T=0.4), ex="e0"))
            ops.append(dict(op="exrun", ex="e0", args=draw_args(d, dg, 0.0)))
        else:
            ops.append(dict(op="call", inst="E:main", args=draw_args(d, dg, 0.0)))
        ops.append(dict(op="results_keys", inst="E:main"))
        if dg["has_setup"] and d.bool(0.5):
            # a cache file written by ANOTHER instance of the same pipeline (other arguments, so other setup values) is used to
            # restart an executor on E: the restart sees the cached values, E's own stored setup results must survive it
            ops.insert(1, dict(op="setup", inst="E:main"))
            ops.append(dict(op="executor", inst="F:main", ex="cw", cache_in="x.pkl"))
            ops.append(dict(op="exrun", ex="cw", args=draw_args(d, dg, 0.0)))
            ops.append(dict(op="executor", inst="E:main", ex="cr", from_cache="x.pkl"))
            ops.append(dict(op="exrun", ex="cr", args=draw_args(d, dg, 0.0)))
            ops.append(dict(op="results_keys", inst="E:main"))
        for _ in range(d.int(1, 2)):
            ops.append(dict(op="call", inst="E:main", args=draw_args(d, dg, 0.85)))
        ops.append(dict(op="results_keys", inst="E:main"))
        scn = base_scn(spec, ops)
        scn["prebuild"].append(dict(env="F", dags=spec["order"]))
        return scn
    spec = gen.gen_program(d, P_C15)
    dg = spec["dags"]["main"]
    from .model import HistoryModel
    ops: List[dict] = [dict(op="results_keys", inst="E:main")]
    faults: List[dict] = []
    n = d.count(2, 7, 0.7)
    calls_idx = [i for i, s in enumerate(dg["stmts"]) if s["k"] == "call"]
    for _ in range(n):
        mode = d.weighted([("call", 4), ("failcall", 3), ("exec", 3), ("exec2", 3), ("execfail2", 3), ("config", 1), ("failbuild", 1),
                           ("compose", 1), ("cancel", 1), ("exgather", 2)])
        j = len(ops)
        if mode == "exgather":
            # ONE executor object awaited several times at once (optionally an executor that starts from a cache file): one
            # await is served, the others are refused or run the whole selection themselves
            if dg["is_async"]:
                sel = draw_selection(d, spec, "main", p_R=0.1, p_X=0.2, p_T=0.4)
                kw: Dict[str, Any] = {}
                if d.bool(0.5):
                    # (a partial run is cached, so that the restarted executor still has argument-dependent work to do)
                    ops.append(dict(op="executor", inst="E:main", ex=f"w{j}", cache_in=f"c{j}.pkl",
                                    sel=draw_selection(d, spec, "main", p_R=0.0, p_X=0.3, p_T=0.8, p_empty=0.0)))
                    ops.append(dict(op="exrun", ex=f"w{j}", args=draw_args(d, dg, 0.0)))
                    kw["from_cache"] = f"c{j}.pkl"
                ops.append(dict(op="executor", inst="E:main", sel=sel, ex=f"g{j}", **kw))
                ops.append(dict(op="gather", calls=[dict(ex=f"g{j}", args=draw_args(d, dg, 0.0)) for _ in range(d.int(2, 3))], ticker=False))
                ops.append(dict(op="results_keys", inst="E:main"))
            continue
        if mode == "cancel":
            if dg["is_async"]:
                ops.append(dict(op="gather", calls=[dict(inst="E:main", args=draw_args(d, dg))], ticker=False,
                                cancel=dict(idx=0, at=d.int(0, 5))))
                ops.append(dict(op="results_keys", inst="E:main"))
            continue
        if mode == "call":
            ops.append(dict(op="call", inst="E:main", args=draw_args(d, dg)))
        elif mode == "failcall" and calls_idx:
            ops.append(dict(op="call", inst="E:main", args=draw_args(d, dg)))
            faults.append(dict(op=[0, j], path=[["main", d.pick(calls_idx)]], when=d.pick(["late", "early"]), kind="exc"))
        elif mode in ("exec", "exec2", "execfail2"):
            sel = draw_selection(d, spec, "main", p_R=0.1, p_X=0.2, p_T=0.5)
            ops.append(dict(op="executor", inst="E:main", sel=sel, ex=f"e{j}"))
            nreq = sum(1 for x in dg["params"] if not x[1])
            if mode == "exec2" and nreq and d.bool(0.3):
                ops.append(dict(op="exrun", ex=f"e{j}", args=draw_args(d, dg)[:nreq - 1]))   # a required argument is missing
            else:
                ops.append(dict(op="exrun", ex=f"e{j}", args=draw_args(d, dg)))
            if mode == "execfail2" and calls_idx:
                faults.append(dict(op=[0, j + 1], path=[["main", d.pick(calls_idx)]], when="late", kind="exc"))
            if mode != "exec":
                ops.append(dict(op="exrun", ex=f"e{j}", args=draw_args(d, dg)))
        elif mode == "config":
            conf: Dict[str, Any] = {"max_concurrency": d.int(1, 4)}
            if calls_idx and d.bool(0.7):
                conf["nodes"] = [[["id", i], {"priority": d.int(-3, 8)}] for i in d.sample(calls_idx, d.int(1, min(3, len(calls_idx))))]
            ops.append(dict(op="config", inst="E:main", cfg=conf, how=d.pick(["dict", "json", "yaml"])))
        elif mode == "failbuild":
            k = d.int(0, len(dg["stmts"]) - 1)
            ops.append(dict(op="build", env=f"F{j}", dags=spec["order"], pauses={"main": {str(k): "raise"}}))
        elif mode == "compose":
            g = flat_graph(spec, "main")
            stmts = sorted(x for x in g["nodes"] if x[0] == "s")
            with_succ = [n for n in stmts if any(m[0] == "s" for m in g["succ"][n])]
            if with_succ and d.bool(0.7):
                i_node = d.pick(with_succ)
                o = d.pick(sorted(m for m in g["succ"][i_node] if m[0] == "s"))
                ops.append(dict(op="compose", inst="E:main", inputs=[["id", i_node[1]]], outputs=[alias_for(d, spec, "main", o)],
                                single=True, **{"as": f"cmp{j}"}))
            else:
                o = d.pick(stmts)
                ops.append(dict(op="compose", inst="E:main", inputs=[], outputs=[alias_for(d, spec, "main", o)], single=True,
                                **{"as": f"cmp{j}"}))
        ops.append(dict(op="results_keys", inst="E:main"))
    ops.append(dict(op="call", inst="E:main", args=draw_args(d, dg)))
    ops.append(dict(op="results_keys", inst="E:main"))
    return base_scn(spec, ops, faults=faults)


reg(Prop("C18", g_c18, {"value": "C18.a", "count_extra": "C18.b", "cache_keys": "C18.c", "count_missing": "C18.d", "raise": "C18.a"},
         nontrivial="multi", n_sched=2, quick=4000))
reg(Prop("C19", g_c19, {"value": "C19.a", "count_extra": "C19.b", "count_missing": "C19.b", "noraise": "C19.c", "wrongexc": "C19.c",
                        "state_leak": "C19.d", "raise": "C19.a", "args": "C19.a"}, nontrivial="multi", n_sched=2, quick=4000))
reg(Prop("C15", g_c15, {"value": "C15.a", "count_extra": "C15.a", "count_missing": "C15.a", "args": "C15.a", "raise": "C15.a",
                        "state_leak": "C15.b", "rerun": "C15.c", "noraise": "C15.a", "prio": "C15.a", "order_mc1": "C15.a"},
         nontrivial="multi", n_sched=2, quick=4000))


# ----------------------------------------------------------------------------- C16 thread safety
P_C16 = gen.profile(**{**gen.SCHED, "n_stmts": (1, 5), "p_flag": 0.1, "n_params": (1, 2), "p_default": 0.3, "p_setup": 0.0,
                       "w_nested": 1.5, "max_depth": 1, "p_async": 0.2, "all_return": False, "ret_shapes": [("tuple", 2), ("single", 1)]})


def g_c16(d: Draw) -> dict:
    spec = gen.gen_program(d, P_C16)
    dg = spec["dags"]["main"]
    if d.bool(0.12):
        # two (or three) threads call the shared DAG; the first node of each call can only finish once a peer's call is inside a
        # node as well: concurrent runs must not share anything they could starve each other on
        n = d.int(2, 3)
        clients = [[dict(op="call", inst="E:main", args=draw_args(d, dg))] for _ in range(n)]
        return dict(program=spec, prebuild=[dict(dags=spec["order"])], clients=clients, rendezvous=True, fair_only=False)
    nclients = d.int(2, 3)
    clients: List[List[dict]] = []
    fnames = sorted(spec["funcs"])
    for c in range(nclients):
        ops: List[dict] = []
        for _ in range(d.count(1, 3, 0.5)):
            mode = d.weighted([("call", 5), ("build", 4), ("xn", 2)])
            if mode == "call":
                ops.append(dict(op="call", inst="E:main", args=draw_args(d, dg)))
            elif mode == "build":
                pauses: Dict[str, Dict[str, str]] = {}
                for dn in spec["order"]:
                    n = len(spec["dags"][dn]["stmts"])
                    for idx in d.sample(list(range(n)), d.int(0, min(2, n))):
                        pauses.setdefault(dn, {})[str(idx)] = "raise" if d.bool(0.12) else "pause"
                env = f"B{c}_{len(ops)}"
                ops.append(dict(op="build", env=env, dags=spec["order"], pauses=pauses, snapshot=True))
                if d.bool(0.5) and not any(v == "raise" for ps in pauses.values() for v in ps.values()):
                    ops.append(dict(op="call", inst=f"{env}:main", args=draw_args(d, dg)))
            else:
                ops.append(dict(op="xn_outside", fn=d.pick(fnames), args=[d.pick(ARG_VALUES) for _ in range(d.int(0, 2))]))
        clients.append(ops)
    builders = [c for c, ops_ in enumerate(clients) if any(o["op"] == "build" for o in ops_)]
    if len(builders) == 1 and d.bool(0.5):
        for o in clients[builders[0]]:
            if o["op"] == "build":
                for dn, ps in o["pauses"].items():
                    for k_ in list(ps):
                        if ps[k_] == "pause":
                            ps[k_] = "peer"
    scn = dict(program=spec, refbuild=[dict(dags=spec["order"])], prebuild=[dict(dags=spec["order"])], clients=clients)
    scn["line_points"] = sorted(d.sample(list(range(1, 1200)), d.int(0, 3)))
    scn["same_thread_names"] = d.bool(0.3)   # thread names are not identities: two pools may each own a "worker_0"
    return scn


reg(Prop("C16", g_c16, {"value": "C16.a", "build_table": "C16.c", "raise": "C16.d", "wrongexc": "C16.d", "noraise": "C16.d",
                        "deadlock": "C16.d", "livelock": "C16.d",
                        "args": "C16.a", "count_extra": "C16.a", "count_missing": "C16.a"},
         nontrivial="concurrent", n_sched=3, quick=2500, thorough=100000))


# ----------------------------------------------------------------------------- C17 async flavour
P_C17A = gen.profile(p_setup=0.08, p_same_inner_twice=0.0)
P_C17B = gen.profile(**{**gen.SCHED, "resources": [("async_thread", 6), ("thread", 2), ("main_thread", 1)], "n_stmts": (2, 7),
                        "n_params": (1, 2), "p_default": 0.2, "p_flag": 0.1, "p_setup": 0.1})


def g_c17(d: Draw) -> dict:
    if d.bool(0.45):
        # (a) both flavours of one describing function
        spec = gen.gen_program(d, P_C17A)
        dg = spec["dags"]["main"]
        args = draw_args(d, dg)
        ops = [dict(op="call", inst="E:main", args=args), dict(op="call", inst="A:main", args=args),
               dict(op="snapshot", inst="E:main", same_as="flavours"), dict(op="snapshot", inst="A:main", same_as="flavours")]
        if d.bool(0.3):
            args2 = draw_args(d, dg)
            ops[2:2] = [dict(op="call", inst="A:main", args=args2), dict(op="call", inst="E:main", args=args2)]
        return dict(program=spec, prebuild=[dict(dags=spec["order"]), dict(env="A", dags=spec["order"], flip_async=True)], clients=[ops])
    # (b, c) concurrent awaits of one AsyncDAG in one loop, ticker sibling, tick-dependent async-thread nodes, cancellation
    spec = gen.gen_program(d, P_C17B)
    dg = spec["dags"]["main"]
    inst = "E:main" if dg["is_async"] else "A:main"
    calls = [dict(inst=inst, args=draw_args(d, dg)) for _ in range(d.int(1, 4))]
    op: Dict[str, Any] = dict(op="gather", calls=calls, ticker=d.bool(0.8))
    scn = dict(program=spec, prebuild=[dict(dags=spec["order"]), dict(env="A", dags=spec["order"], flip_async=True)], clients=[[op]])
    if op["ticker"]:
        scn["fair_only"] = True
    if op["ticker"] and d.bool(0.6):
        scn["tick_nodes"] = "all"
        scn["tick_wait"] = d.int(1, 6)
    if d.bool(0.2):
        op["cancel"] = dict(idx=d.int(0, len(calls) - 1), at=d.int(0, 6))
    elif d.bool(0.25):
        # (not a setup node: whether a setup node runs again in a concurrent sibling await is not determined)
        calls_idx = [i for i, s_ in enumerate(dg["stmts"]) if s_["k"] == "call" and not spec["funcs"][s_["fn"]]["setup"]]
        if calls_idx:
            scn["faults"] = [dict(op=[0, 0, d.int(0, len(calls) - 1)], path=[["main", d.pick(calls_idx)]], when=d.pick(["late", "early"]), kind="exc")]
    return scn


reg(Prop("C17", g_c17, {"value": "C17.a", "count_missing": "C17.a", "count_extra": "C17.a", "args": "C17.b", "state_leak": "C17.a",
                        "raise": "C17.a", "loop_blocked": "C17.c", "deadlock": "C17.c", "livelock": "C17.c", "loop_runs_node": "C17.c", "noraise": "C17.b", "wrongexc": "C17.b"},
         nontrivial="concurrent", n_sched=3, quick=2500, thorough=100000, watchdog=True))
