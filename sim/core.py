"""Deterministic simulator core: participants (real threads, one runnable at a time), controller,
choice sources, schedule strategies, event log.

Every thread that takes part in a simulated run (client threads, one thread per pool work item) is a
*participant* parked on a private semaphore.  The controller (the thread that calls ``Sim.run``)
computes the enabled set, asks the chooser for one index, releases exactly that participant and
waits until it reaches its next yield point.  The OS scheduler never has a choice to make.
"""
from __future__ import annotations

import hashlib
import random
import re
import threading
from typing import Any, Callable, List, Optional

__all__ = [
    "SimAbort", "SimDeadlock", "SimStepCap", "SimLivelock", "Part", "Sim", "PRNGChoices",
    "RecordedChoices", "make_strategy", "current_sim", "set_current_sim", "digest_events",
]


class SimAbort(BaseException):
    """Raised inside participants at their yield point when the run is being torn down."""


class SimDeadlock(Exception):
    """No participant enabled although not all are done."""


class SimStepCap(Exception):
    """The run exceeded its step budget."""


class SimLivelock(BaseException):
    """Raised into a thread that executes too many tawazi branch events without reaching a yield."""


_CURRENT: Optional["Sim"] = None


def current_sim() -> Optional["Sim"]:
    return _CURRENT


def set_current_sim(sim: Optional["Sim"]) -> None:
    global _CURRENT
    _CURRENT = sim


class Part:
    __slots__ = ("sim", "idx", "name", "kind", "sem", "state", "pred", "why", "info", "deadline",
                 "thread", "prio", "meta", "error")

    def __init__(self, sim: "Sim", idx: int, name: str, kind: str) -> None:
        self.sim, self.idx, self.name, self.kind = sim, idx, name, kind
        self.sem = threading.Semaphore(0)
        self.state = "new"  # runnable | blocked | running | done
        self.pred: Optional[Callable[[], bool]] = None
        self.why = "start"
        self.info: Any = None
        self.deadline: Optional[float] = None
        self.thread: Optional[threading.Thread] = None
        self.prio = 0.0
        self.meta: dict = {}
        self.error: Optional[BaseException] = None

    def enabled(self) -> bool:
        if self.state == "runnable":
            return True
        if self.state == "blocked":
            if self.pred is not None and self.pred():
                return True
            if self.deadline is not None and self.sim.now >= self.deadline:
                return True
        return False


class Sim:
    def __init__(self, chooser: "Chooser", step_cap: int = 100000) -> None:
        self.chooser = chooser
        self.step_cap = step_cap
        self.parts: List[Part] = []
        self.ctl = threading.Semaphore(0)
        self.tls = threading.local()
        self.events: List[tuple] = []
        self.schedule: List[int] = []      # index chosen at every step with > 1 enabled
        self.trace: List[tuple] = []       # (participant name, why) per step
        self.step = 0
        self.now = 0.0                     # virtual clock (seconds)
        self.abort = False
        self.cur: Optional[Part] = None
        self.last: Optional[Part] = None
        self.audits: List[Callable[["Sim"], None]] = []
        self.n_choice_points = 0
        self.time_jumps = 0
        self.on_yield: Optional[Callable[[Part], None]] = None

    # ------------------------------------------------------------------ participant side
    def me(self) -> Optional[Part]:
        return getattr(self.tls, "part", None)

    def ev(self, *e: Any) -> int:
        self.events.append(e)
        return len(self.events) - 1

    def spawn(self, name: str, kind: str, fn: Callable[[], None],
              pred: Optional[Callable[[], bool]] = None, info: Any = None) -> Part:
        p = Part(self, len(self.parts), name, kind)
        p.state = "blocked" if pred else "runnable"
        p.pred = pred
        p.info = info
        p.why = "spawn"
        self.parts.append(p)
        self.chooser.on_spawn(self, p)

        def run() -> None:
            self.tls.part = p
            p.sem.acquire()
            try:
                if not self.abort:
                    fn()
            except SimAbort:
                pass
            except BaseException as e:  # harness-level: participants catch what they expect
                p.error = e
            finally:
                p.state = "done"
                self.ctl.release()

        p.thread = threading.Thread(target=run, name=name, daemon=True)
        p.thread.start()
        return p

    def yield_(self, why: str, pred: Optional[Callable[[], bool]] = None, info: Any = None,
               deadline: Optional[float] = None) -> None:
        p = self.me()
        if p is None:
            return  # thread not under simulation
        if self.abort:
            raise SimAbort()
        p.why, p.pred, p.info, p.deadline = why, pred, info, deadline
        p.state = "blocked" if (pred is not None or deadline is not None) else "runnable"
        if self.on_yield is not None:
            self.on_yield(p)
        self.ctl.release()
        p.sem.acquire()
        p.pred = None
        p.deadline = None
        if self.abort:
            raise SimAbort()

    # ------------------------------------------------------------------ controller side
    def enabled(self) -> List[Part]:
        return [p for p in self.parts if p.state != "done" and p.enabled()]

    def run(self) -> None:
        while True:
            en = self.enabled()
            if not en:
                if all(p.state == "done" for p in self.parts):
                    return
                timed = [p.deadline for p in self.parts
                         if p.state == "blocked" and p.deadline is not None]
                if timed:
                    self.now = max(self.now, min(timed))
                    self.time_jumps += 1
                    continue
                raise SimDeadlock([(p.name, p.why) for p in self.parts if p.state != "done"])
            if len(en) > 1:
                i = self.chooser.pick(self, en)
                if not 0 <= i < len(en):
                    i = i % len(en)
                self.schedule.append(i)
                self.n_choice_points += 1
            else:
                i = 0
            p = en[i]
            self.step += 1
            if self.step > self.step_cap:
                raise SimStepCap(self.step)
            self.trace.append((p.name, p.why))
            p.state = "running"
            self.cur = p
            p.sem.release()
            self.ctl.acquire()
            self.last = p
            for a in self.audits:
                a(self)

    def shutdown(self) -> None:
        """Unwind every participant that is still alive (after an abort or at the end of a run)."""
        self.abort = True
        for p in list(self.parts):
            while p.state != "done":
                p.sem.release()
                self.ctl.acquire()
        for p in self.parts:
            if p.thread is not None:
                p.thread.join(5)


# ---------------------------------------------------------------------- choice sources
class PRNGChoices:
    """Choice source backed by random.Random(seed); records what it returned."""

    def __init__(self, seed: int) -> None:
        self.rng = random.Random(seed)
        self.record: List[int] = []

    def draw(self, n: int) -> int:
        v = self.rng.randrange(n) if n > 1 else 0
        self.record.append(v)
        return v


class RecordedChoices:
    """Replays a list of integers; out-of-range values are clipped, exhaustion yields 0."""

    def __init__(self, values: List[int]) -> None:
        self.values = list(values)
        self.pos = 0
        self.record: List[int] = []

    def draw(self, n: int) -> int:
        v = self.values[self.pos] if self.pos < len(self.values) else 0
        self.pos += 1
        if n <= 1:
            v = 0
        elif v >= n:
            v = n - 1
        elif v < 0:
            v = 0
        self.record.append(v)
        return v


class Draw:
    """Convenience layer over a choice source (used by the generators; stream P)."""

    def __init__(self, src: Any) -> None:
        self.src = src

    def choice(self, n: int) -> int:
        return self.src.draw(n)

    def int(self, lo: int, hi: int) -> int:
        return lo + self.src.draw(hi - lo + 1)

    def bool(self, p: float) -> bool:
        """True with probability p; a recorded 0 always means False (the 'simpler' option)."""
        if p <= 0:
            self.src.draw(1)
            return False
        r = self.src.draw(1000)
        return r >= 1000 - int(round(p * 1000))

    def pick(self, seq: list) -> Any:
        return seq[self.src.draw(len(seq))]

    def weighted(self, pairs: list) -> Any:
        """pairs = [(value, weight)], first is the 'simplest'."""
        tot = sum(w for _, w in pairs)
        r = self.src.draw(max(1, int(tot)))
        acc = 0
        for v, w in pairs:
            acc += w
            if r < acc:
                return v
        return pairs[-1][0]

    def count(self, lo: int, hi: int, p_more: float) -> int:
        """lo..hi drawn as repeated 'one more?' booleans so that deleting a block deletes an item."""
        n = lo
        while n < hi and self.bool(p_more):
            n += 1
        return n

    def sample(self, seq: list, k: int) -> list:
        pool = list(seq)
        out = []
        for _ in range(min(k, len(pool))):
            out.append(pool.pop(self.src.draw(len(pool))))
        return out


# ---------------------------------------------------------------------- schedule strategies
class Chooser:
    def on_spawn(self, sim: Sim, p: Part) -> None:
        pass

    def pick(self, sim: Sim, en: List[Part]) -> int:
        raise NotImplementedError


class ReplayChooser(Chooser):
    """Replays recorded indices (clipped).  Past the end: index 0 (canonical order), or, for scenarios with a busy
    sibling coroutine (fair=True), a rotating index so that the continuation stays a fair schedule."""

    def __init__(self, schedule: List[int], fair: bool = False) -> None:
        self.schedule = list(schedule)
        self.pos = 0
        self.fair = fair

    def pick(self, sim: Sim, en: List[Part]) -> int:
        if self.pos < len(self.schedule):
            v = self.schedule[self.pos]
        else:
            v = (self.pos % len(en)) if self.fair else 0
        self.pos += 1
        return min(max(v, 0), len(en) - 1)


class UniformChooser(Chooser):
    def __init__(self, rng: random.Random) -> None:
        self.rng = rng

    def pick(self, sim: Sim, en: List[Part]) -> int:
        return self.rng.randrange(len(en))


class StickyChooser(Chooser):
    def __init__(self, rng: random.Random, p: float) -> None:
        self.rng, self.p = rng, p

    def pick(self, sim: Sim, en: List[Part]) -> int:
        if sim.last is not None and sim.last in en and self.rng.random() < self.p:
            return en.index(sim.last)
        return self.rng.randrange(len(en))


class PCTChooser(Chooser):
    """Random priorities per participant, d priority-change points (Burckhardt et al.)."""

    def __init__(self, rng: random.Random, d: int, horizon: int) -> None:
        self.rng = rng
        self.change = set(rng.sample(range(1, max(2, horizon)), min(d, max(1, horizon - 1))))
        self.low = 0.0

    def on_spawn(self, sim: Sim, p: Part) -> None:
        p.prio = 1.0 + self.rng.random()

    def pick(self, sim: Sim, en: List[Part]) -> int:
        best = max(range(len(en)), key=lambda i: en[i].prio)
        if sim.step in self.change:
            self.low -= 1.0
            en[best].prio = self.low
            best = max(range(len(en)), key=lambda i: en[i].prio)
        return best


class FifoKChooser(Chooser):
    """Canonical order (index 0) with k random deviations."""

    def __init__(self, rng: random.Random, k: int, horizon: int) -> None:
        self.rng = rng
        self.dev = set(rng.sample(range(0, max(1, horizon)), min(k, max(1, horizon))))

    def pick(self, sim: Sim, en: List[Part]) -> int:
        if sim.n_choice_points in self.dev:
            return self.rng.randrange(len(en))
        return 0


class StallChooser(Chooser):
    """Participants whose name matches `victim` (a node FINISH / START) only run when nothing else can."""

    def __init__(self, rng: random.Random, victims: Callable[[Part], bool]) -> None:
        self.rng, self.victims = rng, victims

    def pick(self, sim: Sim, en: List[Part]) -> int:
        others = [i for i, p in enumerate(en) if not self.victims(p)]
        if others:
            return self.rng.choice(others)
        return self.rng.randrange(len(en))


def make_strategy(name: str, rng: random.Random, horizon: int = 60,
                  victims: Optional[Callable[[Part], bool]] = None) -> Chooser:
    if name == "uniform":
        return UniformChooser(rng)
    if name.startswith("sticky"):
        return StickyChooser(rng, 0.7)
    if name.startswith("pct"):
        return PCTChooser(rng, int(name[3:] or 2), horizon)
    if name.startswith("fifo"):
        return FifoKChooser(rng, int(name[4:] or 2), horizon)
    if name == "stall" and victims is not None:
        return StallChooser(rng, victims)
    return UniformChooser(rng)


# ---------------------------------------------------------------------- digest
_ADDR = re.compile(r"0x[0-9a-fA-F]+")


def digest_events(events: List[tuple], schedule: List[int]) -> str:
    h = hashlib.sha1()
    for e in events:
        h.update(_ADDR.sub("0x", repr(e)).encode())
        h.update(b"\n")
    h.update(repr(schedule).encode())
    return h.hexdigest()
