"""Program generator (stream P) and source renderer.

A program spec is a JSON-able dict:
  funcs: {fname: {c, ret, priority, is_sequential, resource, debug, setup, tag, unpack_to}}
  dags:  {dname: {params: [[pname, has_default, default_repr]], stmts: [...], ret: {...}, mc, is_async,
                  flaggable, has_flag, has_setup}}
  order: [dname ...] (definition order, inner DAGs first), main: dname
Statement kinds ('k'): call | op | uop | logic | dag.  Expressions: ['v', var, [keys]] | ['c', repr].
The generator keeps a small static type discipline (see DESIGN 2.1) so that the fragment stays inside
what Python itself defines.
"""
from __future__ import annotations

from typing import Any, Dict, List, Optional

from .core import Draw
from .values import ELEMS

BIN_OPS = ["+", "-", "*", "<", ">", "==", "!=", "<=", ">=", "&", "|", "^"]
CMP_OPS = {"<", ">", "==", "!=", "<=", ">="}
UN_OPS = ["-", "~", "abs"]
CONSTS = ["0", "1", "5", "True", "False", "None", "(1, 2)", "'s'"]
FLAG_CONSTS = ["True", "False", "0", "1", "()", "'x'", "None"]

BASE_PROFILE: Dict[str, Any] = dict(
    n_stmts=(1, 8), p_more=0.72,
    w_call=10, w_op=2, w_uop=0.6, w_logic=1, w_nested=2,
    max_depth=2, p_flag=0.28, p_flag_const=0.25, p_flag_sibling=0.6, p_kwarg=0.25, p_dep=0.78, p_index=0.5, p_unpack=0.4,
    p_reuse=0.3, p_debug=0.0, p_setup=0.0, p_tag=0.0, p_fn_unpack=0.1,
    resources=[("thread", 5), ("async_thread", 2), ("main_thread", 2)], p_seq=0.18, prio=(-2, 4),
    p_prio=0.6, max_args=3, n_params=(0, 3), p_default=0.45,
    ret_types=[("int", 8), ("bool", 4), ("tuple2", 4), ("list3", 2), ("dict", 2), ("str", 2), ("none", 1)],
    ret_shapes=[("single", 3), ("tuple", 3), ("list", 1), ("dict", 1), ("none", 0.5)],
    mc=(1, 5), p_async=0.3, p_ret_const=0.12, p_reflect=0.2,
    p_nested_flag=0.3, p_same_inner_twice=0.0, p_p6=0.0, p_explicit_default=0.7,
    shape_bias=[("uniform", 3), ("recent", 2), ("early", 1), ("wide", 1)],
    p_setup_in_nested=0.0, main_flat=False, all_return=False, p_inner_const=0.0, w_concat=1.0, p_tag_is_id=0.0,
    p_none_default=0.12, p_pass=0.1, p_many_args=0.01, p_keyed_return=0.0, swarm=("resources", "p_dep", "max_args"),
)


def profile(**over: Any) -> Dict[str, Any]:
    p = dict(BASE_PROFILE)
    p.update(over)
    return p


# scheduling-stress programs: no operators / indexing needed, dense dependencies, flags as extra edges
SCHED = profile(w_op=0, w_uop=0, w_logic=0, w_nested=0, n_stmts=(2, 10), p_more=0.8, p_kwarg=0.15,
                ret_types=[("int", 6), ("bool", 2)], p_unpack=0, p_fn_unpack=0, n_params=(0, 2),
                p_flag=0.15, ret_shapes=[("tuple", 1)], all_return=True, p_ret_const=0, p_dep=0.85,
                shape_bias=[("uniform", 3), ("recent", 2), ("early", 1), ("wide", 1), ("join", 2), ("caterpillar", 1)])
# flat graph programs for selection / debug / setup / cache / compose
GRAPH = profile(w_op=0, w_uop=0, w_logic=0, w_nested=0, n_stmts=(2, 11), p_more=0.82, p_kwarg=0.2,
                ret_types=[("int", 7), ("none", 1)], p_unpack=0, p_fn_unpack=0, n_params=(0, 2), p_flag=0.0,
                ret_shapes=[("tuple", 1)], all_return=True, p_ret_const=0, p_tag=0.3, p_dep=0.8,
                p_index=0)
FULL = profile()


class _Var:
    __slots__ = ("name", "type", "nullable", "debug", "setup", "param", "stmt", "key")

    def __init__(self, name: str, type_: str, nullable: bool = False, debug: bool = False,
                 setup: bool = False, param: bool = False, stmt: Optional[int] = None,
                 key: Optional[list] = None) -> None:
        self.name, self.type, self.nullable, self.debug, self.setup = name, type_, nullable, debug, setup
        self.param, self.stmt, self.key = param, stmt, key or []


class ProgramGen:
    def __init__(self, d: Draw, prof: Dict[str, Any]) -> None:
        self.d, self.prof = d, prof
        self.funcs: Dict[str, dict] = {}
        self.dags: Dict[str, dict] = {}
        self.order: List[str] = []
        self.bias = d.weighted(prof["shape_bias"])

    # ------------------------------------------------------------------ entry point
    def generate(self) -> dict:
        main = self.gen_dag(0, "main")
        return {"funcs": self.funcs, "dags": self.dags, "order": self.order, "main": main}

    # ------------------------------------------------------------------ helpers
    def pick_var(self, cands: List[_Var]) -> _Var:
        d = self.d
        if self.bias == "recent" and len(cands) > 1 and d.bool(0.6):
            return cands[-1 - d.choice(min(2, len(cands)))]
        if self.bias == "early" and len(cands) > 1 and d.bool(0.6):
            return cands[d.choice(min(2, len(cands)))]
        return d.pick(cands)

    def var_expr(self, v: _Var, allow_index: bool = True) -> tuple:
        """Expression using v, possibly indexed; returns (expr, type, nullable)."""
        d = self.d
        if allow_index and not v.nullable and v.type in ELEMS and d.bool(self.prof["p_index"]):
            k, t = d.pick(ELEMS[v.type])
            return ["v", v.name, [k]], t, False
        return ["v", v.name, []], v.type, v.nullable

    def arg_expr(self, cands: List[_Var]) -> list:
        d = self.d
        if cands and d.bool(self.prof["p_dep"]):
            return self.var_expr(self.pick_var(cands))[0]
        return ["c", d.pick(CONSTS)]

    def new_func(self, dname: str, debug: bool, setup: bool, force_ret: Optional[str] = None) -> str:
        d, p = self.d, self.prof
        name = f"f{len(self.funcs)}"
        ret = force_ret or d.weighted(p["ret_types"])
        prio = d.int(p["prio"][0], p["prio"][1]) if d.bool(p["p_prio"]) else 0
        res = d.weighted(p["resources"])
        tag = None
        if p["p_tag"] and d.bool(p["p_tag"]):
            tag = d.pick(["t0", "t1", ["t0", "t2"]])
            if p["p_tag_is_id"] and self.funcs and d.bool(p["p_tag_is_id"]):
                tag = d.pick(sorted(self.funcs))   # a tag equal to the id of another node (the first call site of that function)
        unpack_to = 2 if (ret == "tuple2" and not setup and p["p_fn_unpack"] and d.bool(p["p_fn_unpack"])) else None
        self.funcs[name] = dict(c=d.int(1, 999), ret=ret, priority=prio, is_sequential=d.bool(p["p_seq"]),
                                resource=res, debug=debug, setup=setup, tag=tag, unpack_to=unpack_to)
        return name

    # ------------------------------------------------------------------ one DAG
    def gen_dag(self, depth: int, name: Optional[str] = None) -> str:
        d, p = self.d, self.prof
        dname = name or f"sub{len(self.dags)}"
        # reserve the name so nested generation does not reuse it
        self.dags[dname] = {}
        params = []
        nparams = d.int(*p["n_params"]) if depth == 0 else d.int(max(1, p["n_params"][0]), max(1, p["n_params"][1]))
        for i in range(nparams):
            if d.bool(p["p_default"]):
                params.append([f"p{i}", True, d.pick(["2", "0", "7", "True", "False"])])
            else:
                params.append([f"p{i}", False, None])
        params.sort(key=lambda x: x[1])  # defaults last (stable)
        for i, x in enumerate(params):
            x[0] = f"p{i}"
        vars_: List[_Var] = [_Var(x[0], "int", param=True) for x in params]
        st = {"stmts": [], "vars": vars_, "used_inner": set(), "has_flag": False, "has_setup": False,
              "has_debug": False, "depth": depth, "name": dname}
        n = d.count(p["n_stmts"][0], p["n_stmts"][1], p["p_more"])
        for _ in range(n):
            self.gen_stmt(st)
        if not any(s["k"] in ("call", "dag") for s in st["stmts"]) or (depth > 0 and not self._returnable(st)):
            self.gen_call(st, plain=True)
        p6 = depth > 0 and p["p_p6"] > 0 and d.bool(p["p_p6"])
        passthrough = None
        if depth == 0 and p["w_nested"] > 0 and p["max_depth"] > 0 and not p["all_return"] and d.bool(p["p_pass"]):
            passthrough = self.gen_pass(st)
        ret = {"shape": "pass", "items": [["v", passthrough, []]], "keys": []} if passthrough else self.gen_ret(st, depth, p6)
        if passthrough:
            st["ret_types"] = []
        plain = all(e[0] == "v" and not e[2] and self._plain_node_var(st, e[1]) for e in ret["items"])
        flaggable = (not st["has_flag"]) and (not st["has_setup"]) and ret["shape"] != "none" and (plain or p6)
        strict = set()
        for s_ in st["stmts"]:
            es = [s_.get("a"), s_.get("b")] + list(s_.get("args", [])) if s_["k"] in ("op", "uop", "logic", "dag") else []
            for e in es:
                if e is not None and e[0] == "v":
                    strict.add(e[1])
        for x in params:
            x.append("int" if x[0] in strict else "any")
            if x[1] and x[3] == "any" and d.bool(p["p_none_default"]):
                x[2] = "None"   # a parameter whose default is None (omitted by callers)
        self.dags[dname] = dict(params=params, stmts=st["stmts"], ret=ret,
                                mc=d.int(*p["mc"]), is_async=(depth == 0 and d.bool(p["p_async"])),
                                flaggable=flaggable, has_flag=st["has_flag"], has_setup=st["has_setup"],
                                has_debug=st["has_debug"], inner=sorted(st["used_inner"]), p6=bool(p6 and not plain),
                                ret_types=st.get("ret_types", []))
        self.order.append(dname)
        return dname

    def _returnable(self, st: dict) -> List[_Var]:
        return [v for v in st["vars"] if not v.debug and not v.param]

    def _plain_node_var(self, st: dict, vname: str) -> bool:
        for v in st["vars"]:
            if v.name == vname:
                return (not v.param) and not v.key and not v.setup and v.stmt is not None and \
                    st["stmts"][v.stmt]["k"] in ("call", "op", "uop", "logic")
        return False

    def gen_stmt(self, st: dict) -> None:
        d, p = self.d, self.prof
        ints = [v for v in st["vars"] if v.type in ("int", "bool") and not v.nullable and not v.debug]
        opts = [("call", p["w_call"])]
        conts = [v for v in st["vars"] if v.type in ("list3", "lst", "str", "dict") and not v.nullable and not v.debug]
        if ints:
            opts += [("op", p["w_op"]), ("uop", p["w_uop"]), ("logic", p["w_logic"])]
        if conts and p["w_op"] > 0:
            opts.append(("concat", p["w_concat"]))
        if st["depth"] < p["max_depth"]:
            opts.append(("nested", p["w_nested"]))
        opts = [(k, w) for k, w in opts if w > 0]
        kind = d.weighted([(k, int(w * 10)) for k, w in opts])
        if kind == "call":
            self.gen_call(st)
        elif kind == "op":
            self.gen_op(st, ints)
        elif kind == "concat":
            # non-commutative operators on containers / strings: operand order matters (reflected forms included)
            v = self.pick_var(conts)
            fam = "lst" if v.type in ("list3", "lst") else v.type
            same = [w for w in conts if ("lst" if w.type in ("list3", "lst") else w.type) == fam]
            cst = {"lst": "[7]", "str": "'k'", "dict": "{'a': 0, 'c': 1}"}[fam]
            op = "|" if fam == "dict" else "+"
            form = d.pick(["vc", "cv", "vv"])
            a: list = ["v", v.name, []]
            b: list = ["c", cst]
            if form == "cv":
                a, b = b, a
            elif form == "vv":
                b = ["v", self.pick_var(same).name, []]
            out = f"v{len(st['stmts'])}"
            st["stmts"].append(dict(k="op", op=op, a=a, b=b, out=[out]))
            st["vars"].append(_Var(out, "lst" if fam == "lst" else fam, stmt=len(st["stmts"]) - 1))
        elif kind == "uop":
            v = self.pick_var(ints)
            out = f"v{len(st['stmts'])}"
            op = d.pick(UN_OPS)
            st["stmts"].append(dict(k="uop", op=op, a=["v", v.name, []], out=[out]))
            st["vars"].append(_Var(out, "int", stmt=len(st["stmts"]) - 1))
        elif kind == "logic":
            fn = d.pick(["and_", "or_", "not_"])
            a = self.pick_var(ints)
            out = f"v{len(st['stmts'])}"
            args = [["v", a.name, []]]
            if fn != "not_":
                args.append(["v", self.pick_var(ints).name, []] if d.bool(0.8) else ["c", d.pick(["0", "1", "5", "True", "False"])])
            st["stmts"].append(dict(k="logic", fn=fn, args=args, out=[out]))
            st["vars"].append(_Var(out, "bool" if fn == "not_" else "int", stmt=len(st["stmts"]) - 1))
        else:
            self.gen_nested(st)

    def gen_op(self, st: dict, ints: List[_Var]) -> None:
        d = self.d
        a = self.pick_var(ints)
        if d.bool(0.15):
            # operators whose right operand must stay a safe constant (no division by zero, bounded growth)
            op = d.pick(["//", "%", "**", "<<", ">>"])
            b = ["c", {"//": d.pick(["3", "7"]), "%": d.pick(["5", "9"]), "**": "2", "<<": d.pick(["1", "3"]), ">>": d.pick(["1", "2"])}[op]]
            out = f"v{len(st['stmts'])}"
            st["stmts"].append(dict(k="op", op=op, a=["v", a.name, []], b=b, out=[out]))
            st["vars"].append(_Var(out, "int", stmt=len(st["stmts"]) - 1))
            return
        op = d.pick(BIN_OPS)
        if d.bool(0.6):
            b: list = ["v", self.pick_var(ints).name, []]
        else:
            b = ["c", str(d.int(1, 9))]
        ea: list = ["v", a.name, []]
        if b[0] == "c" and d.bool(self.prof["p_reflect"]):
            ea, b = b, ea  # reflected form: constant on the left
        out = f"v{len(st['stmts'])}"
        st["stmts"].append(dict(k="op", op=op, a=ea, b=b, out=[out]))
        st["vars"].append(_Var(out, "bool" if op in CMP_OPS else "int", stmt=len(st["stmts"]) - 1))

    def gen_flag(self, st: dict, debug_fn: bool, force: bool = False) -> Optional[tuple]:
        """Returns (expr, is_const_truthy) or None."""
        d, p = self.d, self.prof
        if not force and not d.bool(p["p_flag"]):
            return None
        if d.bool(p["p_flag_const"]):
            c = d.pick(FLAG_CONSTS)
            return ["c", c], c in ("True", "1", "'x'")
        cands = [v for v in st["vars"] if (debug_fn or not v.debug)]
        if not cands:
            return None
        prev = st.setdefault("flag_srcs", [])
        if prev and d.bool(p["p_flag_sibling"]):
            # a DIFFERENT part of a result that already switches another node: flags are told apart by producer AND key
            name, keys = d.pick(prev)
            v0 = next((w for w in cands if w.name == name), None)
            sib: List[list] = []
            if v0 is not None and keys:
                sib = [["v", name, [k]] for k, _ in ELEMS[v0.type] if [k] != keys]
            elif v0 is not None and v0.key:
                sib = [["v", w.name, []] for w in cands if w.stmt == v0.stmt and w.name != name and w.key]
            if sib:
                e = d.pick(sib)
                prev.append((e[1], e[2]))
                return e, False
        v = self.pick_var(cands)
        if not v.nullable and v.type in ELEMS and d.bool(0.7):
            # prefer the boolean element: whole-value truthiness differs from the element's
            els = [e for e in ELEMS[v.type] if e[1] == "bool"] or ELEMS[v.type]
            k, _ = d.pick(els)
            prev.append((v.name, [k]))
            return ["v", v.name, [k]], False
        prev.append((v.name, []))
        return ["v", v.name, []], False

    def gen_call(self, st: dict, plain: bool = False) -> None:
        d, p = self.d, self.prof
        vars_ = st["vars"]
        want_setup = (not plain) and p["p_setup"] > 0 and d.bool(p["p_setup"]) and (st["depth"] == 0 or p["p_setup_in_nested"] > 0)
        want_debug = (not plain) and (not want_setup) and p["p_debug"] > 0 and d.bool(p["p_debug"])
        fname = None
        if self.funcs and not plain and d.bool(p["p_reuse"]):
            c = [n for n, f in self.funcs.items() if f["debug"] == want_debug and f["setup"] == want_setup]
            if c:
                fname = d.pick(c)
        if fname is None:
            fname = self.new_func(st["name"], want_debug, want_setup)
        f = self.funcs[fname]
        if f["setup"]:
            cands = [v for v in vars_ if v.setup]
        elif f["debug"]:
            cands = list(vars_)
        else:
            cands = [v for v in vars_ if not v.debug]
        if self.bias == "wide" and len(cands) > 2 and d.bool(0.5):
            cands = cands[:2]
        nargs = d.int(0, p["max_args"])
        args = [self.arg_expr(cands) for _ in range(nargs)]
        if self.bias == "caterpillar" and not f["setup"]:
            # a spine with one leaf per spine node: every level of the graph is narrow, yet many leaves of different depths can
            # be running at the same time (the widest level under-estimates the possible parallelism)
            own = [v for v in cands if not v.param]
            spine = st.get("spine")
            sv = next((v for v in own if v.name == spine), None) if spine else None
            if sv is not None:
                args = [["v", sv.name, []]]
            elif own:
                args = [["v", own[-1].name, []]]
            # strictly alternating: spine node, its leaf, next spine node, ... (a few double leaves)
            st["spine_next"] = sv is None or st.get("last_was_leaf", False) or d.bool(0.2)
            st["last_was_leaf"] = not st["spine_next"]
        if self.bias == "join" and not f["setup"]:
            # independent nodes followed by a node that joins the two most recent results: siblings that run (and finish)
            # together and a successor all of whose remaining parents may be harvested by one wait
            own = [v for v in cands if not v.param]
            if len(own) >= 2 and own[-1].stmt != own[-2].stmt and d.bool(0.5):
                args = [["v", own[-1].name, []], ["v", own[-2].name, []]]
            elif d.bool(0.7):
                args = [a for a in args if a[0] == "c" or any(v.param and v.name == a[1] for v in cands)]
        if p["p_many_args"] and d.bool(p["p_many_args"]):
            # many positional constants: argument holders are named "<k>th argument" (ordinal suffixes beyond 20)
            args += [["c", str(i % 7)] for i in range(d.int(18, 26))]
        kwargs = []
        if d.bool(p["p_kwarg"]):
            kwargs.append(["k", self.arg_expr(cands)])
            if d.bool(0.2):
                kwargs.append(["kk", self.arg_expr(cands)])
        flag = None
        const_truthy = False
        if not f["setup"] and f["unpack_to"] is None and not plain:
            fl = self.gen_flag(st, f["debug"])
            if fl is not None:
                flag, const_truthy = fl
                st["has_flag"] = True
        tag = None
        if p["p_tag"] and d.bool(p["p_tag"] / 2):
            tag = d.pick(["ct0", "ct1"])
        idx = len(st["stmts"])
        unpack = None
        if f["unpack_to"] is not None:
            unpack = "fn"
        elif f["ret"] == "tuple2" and flag is None and d.bool(p["p_unpack"]):
            unpack = "call"
        nullable = flag is not None and not const_truthy
        if unpack:
            outs = [f"v{idx}_0", f"v{idx}_1"]
            for i, (k, t) in enumerate(ELEMS["tuple2"]):
                vars_.append(_Var(outs[i], t, debug=f["debug"], setup=f["setup"], stmt=idx, key=[i]))
        else:
            outs = [f"v{idx}"]
            vars_.append(_Var(outs[0], f["ret"], nullable=nullable or f["ret"] == "none", debug=f["debug"], setup=f["setup"], stmt=idx))
        st["stmts"].append(dict(k="call", fn=fname, args=args, kwargs=kwargs, flag=flag, tag=tag,
                                unpack=unpack, out=outs))
        if st.pop("spine_next", False) and not unpack:
            st["spine"] = outs[0]
        st["has_setup"] = st["has_setup"] or f["setup"]
        st["has_debug"] = st["has_debug"] or f["debug"]

    def gen_nested(self, st: dict) -> None:
        d, p = self.d, self.prof
        # reuse an existing sub-DAG or generate a new one
        cands = [n for n in self.order if n != "main" and not self.dags[n].get("no_nest")
                 and (n not in st["used_inner"] or d.bool(p["p_same_inner_twice"]))]
        if cands and d.bool(0.35):
            inner = d.pick(cands)
        else:
            inner = self.gen_dag(st["depth"] + 1)
        idag = self.dags[inner]
        if idag["ret"]["shape"] == "none":
            return
        if idag.get("has_debug"):
            return
        # transitive inner names (ids are prefixed by the chain, a repeated chain collides: P4)
        st["used_inner"].add(inner)
        vars_ = st["vars"]
        cands_v = [v for v in vars_ if not v.debug]
        nreq = sum(1 for x in idag["params"] if not x[1])
        nsup = nreq
        while nsup < len(idag["params"]) and d.bool(p["p_explicit_default"]):
            nsup += 1
        ints = [v for v in cands_v if v.type in ("int", "bool") and not v.nullable]
        args = []
        for j in range(nsup):
            if idag["params"][j][3] == "any":
                args.append(self.arg_expr(cands_v))
            elif ints and d.bool(p["p_dep"]):
                args.append(["v", self.pick_var(ints).name, []])
            else:
                args.append(["c", d.pick(["0", "1", "5", "True", "False"])])
        flag = None
        if idag["flaggable"] and d.bool(p["p_nested_flag"]):
            fl = self.gen_flag(st, False, force=True)
            if fl is None:
                fl = (["c", d.pick(["False", "True", "0"])], False)
            flag = fl[0]
            st["has_flag"] = True
        elif idag["has_flag"]:
            st["has_flag"] = True
        st["has_setup"] = st["has_setup"] or idag["has_setup"]
        idx = len(st["stmts"])
        ret = idag["ret"]
        outs, outkeys = [], []
        # type of every returned item, seen from the outer DAG
        item_types = idag["ret_types"]
        if ret["shape"] == "single":
            outs = [f"v{idx}"]
            t, nl = item_types[0]
            vars_.append(_Var(outs[0], t, nullable=nl or flag is not None, stmt=idx))
        else:
            keys = ret["keys"] if ret["shape"] == "dict" else list(range(len(ret["items"])))
            for k, (t, nl) in zip(keys, item_types):
                o = f"v{idx}_{k}"
                outs.append(o)
                outkeys.append(k)
                vars_.append(_Var(o, t, nullable=nl or flag is not None, stmt=idx, key=[k]))
        st["stmts"].append(dict(k="dag", dag=inner, args=args, flag=flag, out=outs, shape=ret["shape"],
                                outkeys=outkeys))

    def gen_pass(self, st: dict) -> Optional[str]:
        """`_tK = inner(args)` bound as a whole (no unpacking) and returned as it is."""
        d, p = self.d, self.prof
        cands = [n for n in self.order if n != "main" and n not in st["used_inner"] and not self.dags[n].get("has_debug")
                 and not self.dags[n].get("no_nest")
                 and self.dags[n]["ret"]["shape"] in ("tuple", "list", "dict", "single")]
        inner = d.pick(cands) if cands and d.bool(0.5) else self.gen_dag(st["depth"] + 1)
        idag = self.dags[inner]
        if idag["ret"]["shape"] in ("none", "pass") or idag.get("has_debug"):
            return None
        st["used_inner"].add(inner)
        cands_v = [v for v in st["vars"] if not v.debug]
        ints = [v for v in cands_v if v.type in ("int", "bool") and not v.nullable]
        nreq = sum(1 for x in idag["params"] if not x[1])
        nsup = nreq
        while nsup < len(idag["params"]) and d.bool(p["p_explicit_default"]):
            nsup += 1
        args = []
        for j in range(nsup):
            if idag["params"][j][3] == "any":
                args.append(self.arg_expr(cands_v))
            elif ints and d.bool(p["p_dep"]):
                args.append(["v", self.pick_var(ints).name, []])
            else:
                args.append(["c", d.pick(["0", "1", "5", "True", "False"])])
        idx = len(st["stmts"])
        tmp = f"_w{idx}"
        st["stmts"].append(dict(k="dag", dag=inner, args=args, flag=None, out=[tmp], shape="whole", outkeys=[]))
        if idag["has_flag"]:
            st["has_flag"] = True
        st["has_setup"] = st["has_setup"] or idag["has_setup"]
        return tmp

    def gen_ret(self, st: dict, depth: int, p6: bool = False) -> dict:
        d, p = self.d, self.prof
        real = self._returnable(st)
        if p["all_return"]:
            items = []
            for v in st["vars"]:
                if v.param or v.debug:
                    continue
                if p["p_keyed_return"] and not v.key and v.type in ELEMS and d.bool(p["p_keyed_return"]):
                    items.append(["v", v.name, [d.pick(ELEMS[v.type])[0]]])   # indexed part of a result in the return value
                else:
                    items.append(["v", v.name, []])
            self._set_ret_types(st, items)
            return {"shape": "tuple", "items": items, "keys": []}
        shapes = [(s, w) for s, w in p["ret_shapes"] if not (depth > 0 and s == "none")]
        shape = d.weighted([(s, int(w * 10)) for s, w in shapes])
        if shape == "none" or not real:
            if depth > 0:
                shape = "single"
            else:
                st["ret_types"] = []
                return {"shape": "none", "items": [], "keys": []}

        def item() -> list:
            if depth > 0 and p["p_inner_const"] and d.bool(p["p_inner_const"]):
                return ["c", d.pick(["1", "2", "'c'"])]   # known weak spot P7: an inner DAG returning a constant
            if depth == 0 and d.bool(p["p_ret_const"]):
                return ["c", d.pick(["1", "2", "None", "'c'"])]
            if p6 and d.bool(0.6):
                # known weak spot P6: outputs of a (possibly deactivated) nested DAG that are not plain node results
                kind = d.pick(["param", "keyed"])
                pv = [v for v in st["vars"] if v.param]
                kv = [v for v in real if not v.nullable and v.type in ELEMS]
                if kind == "param" and pv:
                    return ["v", d.pick(pv).name, []]
                if kind == "keyed" and kv:
                    v = d.pick(kv)
                    return ["v", v.name, [d.pick(ELEMS[v.type])[0]]]
                return self.var_expr(self.pick_var(real))[0]
            return self.var_expr(self.pick_var(real))[0]

        if shape == "single":
            items = [item()]
            keys: list = []
        elif shape in ("tuple", "list"):
            items = [item() for _ in range(d.int(1, 3))]
            keys = []
        else:
            keys = d.sample(["x", "y", "z"], d.int(1, 3))
            items = [item() for _ in keys]
        self._set_ret_types(st, items)
        return {"shape": shape, "items": items, "keys": keys}

    def _set_ret_types(self, st: dict, items: list) -> None:
        byname = {v.name: v for v in st["vars"]}
        types = []
        for e in items:
            if e[0] == "c":
                types.append(("any", e[1] == "None"))
            else:
                v = byname[e[1]]
                t = v.type
                for k in e[2]:
                    t = dict(ELEMS[t])[k] if t in ELEMS else "any"
                types.append((t, v.nullable))
        st["ret_types"] = types


SWARM = {
    "resources": [[("thread", 5), ("async_thread", 2), ("main_thread", 2)], [("thread", 1)], [("async_thread", 1)],
                  [("thread", 1), ("async_thread", 1)], [("main_thread", 3), ("thread", 1)], [("thread", 3), ("async_thread", 3), ("main_thread", 3)]],
    "p_dep": [0.78, 0.5, 0.95],
    "p_seq": [0.18, 0.0, 0.45],
    "p_prio": [0.6, 0.0, 1.0],
    "max_args": [3, 1, 4],
}


def swarm(d: Draw, prof: Dict[str, Any], p: float = 0.35) -> Dict[str, Any]:
    """Swarm-style variation: with probability p per knob, replace it by one of a few alternative settings (index 0 of the
    recorded choice keeps the profile's own value, so shrinking falls back to the plain profile)."""
    out = dict(prof)
    for k in prof.get("swarm", ()):
        if d.bool(p):
            out[k] = d.pick(SWARM[k])
    return out


def gen_program(d: Draw, prof: Dict[str, Any]) -> dict:
    prof = swarm(d, prof) if prof.get("swarm") else prof
    g = ProgramGen(d, prof)
    spec = g.generate()
    return spec


def _stmt_exprs(s: dict) -> List[list]:
    if s["k"] == "call":
        return list(s["args"]) + [e for _, e in s["kwargs"]] + ([s["flag"]] if s["flag"] is not None else [])
    if s["k"] == "op":
        return [s["a"], s["b"]]
    if s["k"] == "uop":
        return [s["a"]]
    if s["k"] == "logic":
        return list(s["args"])
    raise ValueError("nested statement")


def derive_composed(spec_dags: Dict[str, dict], funcs: Dict[str, dict], base: str, ins: List[int], outs: List[int],
                    name: str) -> Optional[dict]:
    """The DAG `base.compose(name, inputs=ins, outputs=outs)` written out in the program language (so that the reference
    interpreter, the graph model and the generator can treat it like any other DAG - in particular nest it).  `ins` / `outs`
    are statement indices of a flat base DAG.  None when the composition would be refused (a required parameter is needed)."""
    import copy
    bd = spec_dags[base]
    by_out = {o: i for i, s_ in enumerate(bd["stmts"]) for o in s_["out"]}
    pidx = {x[0]: j for j, x in enumerate(bd["params"])}
    need: set = set()
    stack = [o for o in outs if o not in ins]
    while stack:
        i = stack.pop()
        if i in need or i in ins:
            continue
        need.add(i)
        for e in _stmt_exprs(bd["stmts"][i]):
            if e[0] != "v":
                continue
            if e[1] in by_out:
                stack.append(by_out[e[1]])
            elif not bd["params"][pidx[e[1]]][1]:
                return None

    def sub(e: list) -> list:
        if e[0] != "v":
            return e
        if e[1] in by_out and by_out[e[1]] in ins:
            return ["v", f"i{ins.index(by_out[e[1]])}", list(e[2])]
        if e[1] in pidx:
            return ["c", bd["params"][pidx[e[1]]][2]]
        return e

    stmts = []
    keep = {}
    for i in sorted(need):
        s_ = copy.deepcopy(bd["stmts"][i])
        if s_["k"] == "call":
            s_["args"] = [sub(e) for e in s_["args"]]
            s_["kwargs"] = [[k, sub(e)] for k, e in s_["kwargs"]]
            s_["flag"] = sub(s_["flag"]) if s_["flag"] is not None else None
        elif s_["k"] == "op":
            s_["a"], s_["b"] = sub(s_["a"]), sub(s_["b"])
        elif s_["k"] == "uop":
            s_["a"] = sub(s_["a"])
        else:
            s_["args"] = [sub(e) for e in s_["args"]]
        keep[i] = len(stmts)
        stmts.append(s_)
    items, types = [], []
    for o in outs:
        so = bd["stmts"][o]
        f = funcs[so["fn"]]
        items.append(["v", so["out"][0], []] if o not in ins else ["v", f"i{ins.index(o)}", []])
        types.append((f["ret"], so["flag"] is not None or f["ret"] == "none"))
    return dict(params=[[f"i{j}", False, None, "int"] for j in range(len(ins))], stmts=stmts,
                ret={"shape": "tuple", "items": items, "keys": []}, ret_types=types, mc=1, is_async=bd["is_async"],
                flaggable=False, has_flag=any(s_.get("flag") is not None for s_ in stmts), has_setup=False, has_debug=False,
                inner=[], p6=False, derived={"from": base, "inputs": list(ins), "outputs": list(outs), "keep": keep})


# ---------------------------------------------------------------------- rendering
def render_expr(e: list) -> str:
    if e[0] == "c":
        return e[1]
    return e[1] + "".join(f"[{k!r}]" for k in e[2])


def render_stmt(s: dict, idx: int) -> str:
    k = s["k"]
    outs = s["out"]
    if k == "call":
        parts = [render_expr(a) for a in s["args"]] + [f"{kw}={render_expr(e)}" for kw, e in s["kwargs"]]
        if s["flag"] is not None:
            parts.append(f"twz_active={render_expr(s['flag'])}")
        if s["tag"] is not None:
            parts.append(f"twz_tag={s['tag']!r}")
        if s["unpack"] == "call":
            parts.append("twz_unpack_to=2")
        lhs = ", ".join(outs)
        return f"{lhs} = {s['fn']}({', '.join(parts)}); _mark({idx}, {', '.join(outs)})"
    if k == "op":
        return f"{outs[0]} = {render_expr(s['a'])} {s['op']} {render_expr(s['b'])}; _mark({idx}, {outs[0]})"
    if k == "uop":
        a = render_expr(s["a"])
        rhs = f"abs({a})" if s["op"] == "abs" else f"{s['op']}{a}"
        return f"{outs[0]} = {rhs}; _mark({idx}, {outs[0]})"
    if k == "logic":
        return f"{outs[0]} = {s['fn']}({', '.join(render_expr(a) for a in s['args'])}); _mark({idx}, {outs[0]})"
    if k == "dag":
        parts = [render_expr(a) for a in s["args"]]
        if s["flag"] is not None:
            parts.append(f"twz_active={render_expr(s['flag'])}")
        call = f"{s['dag']}({', '.join(parts)})"
        if s["shape"] == "single":
            return f"{outs[0]} = {call}; _mark({idx}, {outs[0]})"
        if s["shape"] == "whole":
            return f"{outs[0]} = {call}; _mark({idx})"
        if s["shape"] in ("tuple", "list"):
            lhs = ", ".join(outs) + ("," if len(outs) == 1 else "")
            return f"{lhs} = {call}; _mark({idx}, {', '.join(outs)})"
        tmp = f"_t{idx}"
        un = "; ".join(f"{o} = {tmp}[{key!r}]" for o, key in zip(outs, s["outkeys"]))
        return f"{tmp} = {call}; {un}; _mark({idx}, {', '.join(outs)})"
    raise ValueError(k)


def render_ret(ret: dict) -> str:
    items = [render_expr(e) for e in ret["items"]]
    sh = ret["shape"]
    if sh == "none":
        return "return None"
    if sh in ("single", "pass"):
        return f"return {items[0]}"
    if sh == "tuple":
        return "return (" + ", ".join(items) + ("," if len(items) == 1 else "") + ")"
    if sh == "list":
        return "return [" + ", ".join(items) + "]"
    return "return {" + ", ".join(f"{k!r}: {v}" for k, v in zip(ret["keys"], items)) + "}"


FIRST_STMT_LINE = 3


def render_dag(spec: dict, dname: str, pauses: Optional[Dict[int, str]] = None) -> str:
    dg = spec["dags"][dname]
    sig = ", ".join(p[0] if not p[1] else f"{p[0]}={p[2]}" for p in dg["params"])
    lines = [f"@_dag({dname!r})", f"def {dname}({sig}):"]
    for i, s in enumerate(dg["stmts"]):
        pre = ""
        if pauses and str(i) in pauses:
            pre = f"_pause({i}, {pauses[str(i)]!r}); "
        lines.append("    " + pre + render_stmt(s, i))
    lines.append("    " + render_ret(dg["ret"]))
    return "\n".join(lines) + "\n"


def stmt_location(dname: str, idx: int) -> str:
    return f"<gen:{dname}>:{FIRST_STMT_LINE + idx}"


def render_program(spec: dict) -> Dict[str, str]:
    return {n: render_dag(spec, n) for n in spec["order"]}
