"""Run scenarios under the simulator: single runs, worker batches, replay, evidence aggregation."""
from __future__ import annotations

import collections
import hashlib
import json
import os
import random
import sys
import time
import traceback
from typing import Any, Dict, List, Optional, Tuple

from . import core, harness, model, oracles, seams
from .core import Draw, PRNGChoices, RecordedChoices
from .gen import render_program
from .props import PROPS, Prop

ROOT = os.path.dirname(os.path.dirname(os.path.abspath(__file__)))


def run_seed(base: int, i: int) -> int:
    return base * 1_000_003 + i


def gen_scenario(prop: Prop, seed: int, record: Optional[List[int]] = None) -> Tuple[dict, List[int]]:
    src: Any = RecordedChoices(record) if record is not None else PRNGChoices(f"{seed}:P")  # type: ignore[arg-type]
    scn = prop.gen(Draw(src))
    return scn, src.record


def make_chooser(strategy: str, sseed: str, scn: dict) -> core.Chooser:
    rng = random.Random(sseed)
    horizon = 12 * max(2, sum(len(d["stmts"]) for d in scn["program"]["dags"].values()))
    victims = None
    if strategy == "stall":
        fnames = sorted(scn["program"]["funcs"])
        chosen = set(rng.sample(fnames, max(1, len(fnames) // rng.choice([2, 3])))) if fnames else set()
        kind = rng.choice(["finish", "finish", "start"])

        def victims(p: core.Part) -> bool:  # noqa: F811
            info = p.info
            if not (isinstance(info, tuple) and len(info) == 3 and info[0] == kind and isinstance(info[2], str)):
                return False
            return info[2].split("<<")[0].split(".")[-1] in chosen
    return core.make_strategy(strategy, rng, horizon, victims)


def label(prop: Prop, V: List[dict]) -> List[dict]:
    out = []
    for v in V:
        c = prop.clauses.get(v["g"])
        if c is None:
            continue
        f = dict(v)
        f["clause"], f["prop"] = c, prop.pid
        f["sig"] = [c] + list(v["tags"])
        out.append(f)
    return out


def execute(prop: Prop, scn: dict, *, strategy: str = "uniform", sseed: str = "0", schedule: Optional[List[int]] = None,
            salt: int = 0, expects: Optional[dict] = None) -> Tuple[Any, List[dict], dict]:
    chooser: core.Chooser = core.ReplayChooser(schedule, fair=bool(scn.get("fair_only"))) if schedule is not None \
        else make_chooser(strategy, sseed, scn)
    run = harness.Run(scn, chooser, salt=salt, watchdog=prop.watchdog,
                      line_points=set(scn["line_points"]) if scn.get("line_points") else None)
    run.execute()
    if expects is None:
        expects = model.HistoryModel(scn).run_all()
    V = oracles.analyse(run, expects, retire_probe=bool(harness.SEAM_REPORT.get("retire")))
    return run, label(prop, V), expects


def node_level_digest(run: Any) -> Tuple[str, bool]:
    """(hash of the node-level event sequence, whether >= 2 node functions were in flight at some instant)."""
    h = hashlib.sha1()
    inside = 0
    conc = False
    for e in run.sim.events:
        if e[0] in ("enter", "exit", "submit", "dispatch_async", "wait_ret", "op_begin", "op_end", "fault", "cancel", "retire"):
            h.update(repr(e[:4]).encode())
        if e[0] == "enter":
            inside += 1
            conc = conc or inside >= 2
        elif e[0] == "exit":
            inside -= 1
    return h.hexdigest()[:16], conc


def scenario_shape(scn: dict) -> str:
    h = hashlib.sha1()
    for n, src in sorted(render_program(scn["program"]).items()):
        h.update(src.encode())
    h.update(json.dumps([scn["clients"], scn.get("faults"), scn.get("debug_on")], sort_keys=True, default=str).encode())
    h.update(json.dumps({k: [v["priority"], v["is_sequential"], v["resource"], v["debug"], v["setup"]]
                         for k, v in scn["program"]["funcs"].items()}, sort_keys=True).encode())
    return h.hexdigest()[:16]


def trim_events(events: List[tuple], n: int = 400) -> List[Any]:
    return [json.loads(json.dumps(e, default=str)) for e in events[:n]]


# ----------------------------------------------------------------------------- worker batch
def worker_batch(job: dict) -> dict:
    prop = PROPS[job["prop"]]
    t0 = time.time()
    stats: Dict[str, Any] = collections.Counter()
    probes: collections.Counter = collections.Counter()
    faults_fired: collections.Counter = collections.Counter()
    strat_mix: collections.Counter = collections.Counter()
    distinct: set = set()
    distinct_nt: set = set()
    samples: List[dict] = []
    violations: List[dict] = []
    harness_errors: List[str] = []
    nondet: List[str] = []
    other: collections.Counter = collections.Counter()
    max_steps_ratio = 0.0
    max_branch = 0
    n_sched = job.get("n_sched", prop.n_sched)
    digests: Dict[str, str] = {}
    deadline = t0 + job.get("time_budget", 1e9)
    seeds_done = 0
    for i in range(job["start"], job["stop"], job["step"]):
        if time.time() > deadline:
            stats["stopped_by_time"] += 1
            break
        seed = run_seed(job["base"], i)
        try:
            scn, rec = gen_scenario(prop, seed)
        except Exception:
            harness_errors.append(f"gen seed {seed}: {traceback.format_exc()[-800:]}")
            continue
        seeds_done += 1
        try:
            expects = model.HistoryModel(scn).run_all()
        except Exception:
            harness_errors.append(f"model seed {seed}: {traceback.format_exc()[-800:]}")
            continue
        if any(e.note.startswith("ref-undefined") for e in expects.values()):
            stats["ref_undefined"] += 1
            continue
        variants = [(scn, rec, expects)]
        if prop.fault_enum and scn.get("n_variants", 1) > 1:
            variants = []
            for v in range(scn["n_variants"]):
                try:
                    scn_v, rec_v = gen_scenario(prop, seed, record=rec[:-1] + [v])
                    variants.append((scn_v, rec_v, model.HistoryModel(scn_v).run_all()))
                except Exception:
                    harness_errors.append(f"variant {v} seed {seed}: {traceback.format_exc()[-800:]}")
            stats["fault_variants"] += len(variants)
        for vi, (scn, rec, expects) in enumerate(variants):
          shape = scenario_shape(scn)
          for k in range(n_sched):
              strategy = prop.strategies[(i + k) % len(prop.strategies)]
              if scn.get("fair_only") and strategy not in ("uniform", "sticky"):
                  # a busy sibling coroutine keeps the loop thread enabled forever: priority / stall schedules would starve
                  # the workers, which no real (fair) scheduler does
                  strategy = ("uniform", "sticky")[(i + k) % 2]
              sseed = f"{seed}:S:{k}"
              try:
                  run, F, _ = execute(prop, scn, strategy=strategy, sseed=sseed, salt=k, expects=expects)
              except Exception:
                  harness_errors.append(f"run seed {seed} k {k}: {traceback.format_exc()[-1200:]}")
                  break
              stats["runs"] += 1
              if job.get("emit_digests"):
                  digests[f"{seed}:{vi}:{k}"] = run.digest() + ":" + ";".join(sorted("|".join(f["sig"]) for f in F))
              stats["steps"] += run.sim.step
              stats["choice_points"] += run.sim.n_choice_points
              stats["executions"] += run.rt.n_tokens
              stats["events"] += len(run.sim.events)
              stats["virtual_time_ms"] += int(run.sim.now * 1000)
              strat_mix[strategy] += 1
              max_steps_ratio = max(max_steps_ratio, run.sim.step / run.step_cap)
              max_branch = max(max_branch, run.rt.max_branch)
              for kk, vv in run.rt.probes.items():
                  probes[kk] += vv
              for w in run.fired:
                  faults_fired[{"late:exc": "F1_node_raises_late", "early:exc": "F1_node_raises_early", "late:base": "F2_node_raises_BaseException",
                                "early:base": "F2_node_raises_BaseException", "cancel:F5": "F5_await_cancelled"}.get(f"{w[0]}:{w[1]}", f"{w[0]}:{w[1]}")] += 1
              if strategy == "stall":
                  faults_fired["F3_stalled_node_schedule"] += 1
              if k:
                  faults_fired["F7_done_set_order_permuted"] += 1
              for kk in ("F4_delayed_start_overtaken", "describe_paused"):
                  if run.rt.probes.get(kk):
                      faults_fired["F8_build_paused_or_failed" if kk == "describe_paused" else kk] += run.rt.probes[kk]
              n_rerun = sum(1 for e in expects.values() if e.kind == "rerun")
              if n_rerun:
                  faults_fired["F9_executor_second_run"] += n_rerun
              if run.status != "ok":
                  stats["status_" + run.status] += 1
              nd, conc = node_level_digest(run)
              key = shape + nd
              distinct.add(key)
              if nontrivial(prop, scn, run, conc):
                  distinct_nt.add(key if prop.nontrivial == "concurrent" else shape)
              if len(samples) < 2 and (conc or k == n_sched - 1) and job["start"] == 0:
                  samples.append({"seed": seed, "strategy": strategy, "sources": render_program(scn["program"]),
                                  "clients": scn["clients"], "faults": scn.get("faults", []), "schedule": run.sim.schedule[:200],
                                  "events": trim_events(run.sim.events, 120),
                                  "outcomes": {str(kk): _outcome_json(vv) for kk, vv in run.outcomes.items()}})
              if F:
                  # keep a few runs per SIGNATURE (not per worker): a flood of one (possibly known) finding must never crowd
                  # out a different one; within a run the rarest signatures are listed first
                  Fs = sorted(F, key=lambda f: other["|".join(f["sig"])])
                  if any(other["|".join(f["sig"])] < 4 for f in F) and len(violations) < 300:
                      violations.append({"seed": seed, "i": i, "k": k, "strategy": strategy, "sseed": sseed, "salt": k,
                                         "record": rec, "schedule": list(run.sim.schedule), "findings": Fs[:6],
                                         "digest": run.digest(), "scenario": scn})
                  stats["runs_with_findings"] += 1
                  for f in F:
                      other["|".join(f["sig"])] += 1
              # determinism self-check: re-run the same schedule, digests must agree
              if k == 0 and i % job.get("det_every", 40) == 0:
                  try:
                      run2, _, _ = execute(prop, scn, schedule=list(run.sim.schedule), salt=k, expects=expects)
                      stats["det_checked"] += 1
                      if run2.digest() != run.digest():
                          nondet.append(f"seed {seed}: digest differs on identical schedule")
                  except Exception:
                      harness_errors.append(f"det rerun seed {seed}: {traceback.format_exc()[-800:]}")
    return {"prop": prop.pid, "job": job, "stats": dict(stats), "probes": dict(probes), "faults_fired": dict(faults_fired),
            "strategies": dict(strat_mix), "distinct": sorted(distinct), "distinct_nt": sorted(distinct_nt),
            "samples": samples, "violations": violations, "harness_errors": harness_errors[:10], "nondet": nondet[:10],
            "sig_counts": dict(other), "digests": digests, "max_steps_ratio": max_steps_ratio, "max_branch": max_branch,
            "seeds": seeds_done, "wall": time.time() - t0, "hashseed": os.environ.get("PYTHONHASHSEED"),
            "tawazi_file": harness.tawazi.__file__, "seam_report": {k: v for k, v in harness.SEAM_REPORT.items()}}


def nontrivial(prop: Prop, scn: dict, run: Any, conc: bool) -> bool:
    if prop.nontrivial == "concurrent":
        return conc
    if prop.nontrivial == "multi":
        return sum(len(d["stmts"]) for d in scn["program"]["dags"].values()) >= 3
    return True


def _outcome_json(o: dict) -> dict:
    if o["status"] == "ok":
        return {"status": "ok", "value": json.loads(json.dumps(o["value"], default=str))}
    return {"status": "exc", "type": o["type"], "msg": o["msg"][:200]}


def main() -> None:
    job = json.loads(sys.argv[1])
    import faulthandler
    faulthandler.enable()
    faulthandler.dump_traceback_later(job.get("hard_timeout", 3000), exit=True)
    res = worker_batch(job)
    with open(job["out"], "w") as fh:
        json.dump(res, fh, default=str)


if __name__ == "__main__":
    main()
