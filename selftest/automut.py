#!/venv/bin/python
"""Mutation analysis: which small syntactic mutants of tawazi survive tawazi's own test-suite, and which of those
survive a smoke run of all property checks?  Survivors of both are either equivalent mutants or generator / oracle gaps.

  selftest/automut.py list                      count mutants per file
  selftest/automut.py run [--workers 14] [--limit N] [--files a.py,b.py] [--seeds 250]
                                               -> selftest/automut_results.jsonl (one line per mutant)
  selftest/automut.py report                   -> selftest/AUTOMUT.md

Everything happens in scratch copies of /repo's HEAD (one per worker, under $TMPDIR, removed at the end).
"""
from __future__ import annotations

import argparse
import ast
import copy
import json
import multiprocessing as mp
import os
import shutil
import subprocess
import sys
import tempfile
import time

ROOT = os.path.dirname(os.path.dirname(os.path.abspath(__file__)))
FILES = ["tawazi/_dag/helpers.py", "tawazi/_dag/dag.py", "tawazi/_dag/digraph.py", "tawazi/_dag/constructor.py",
         "tawazi/node/node.py", "tawazi/node/uxn.py", "tawazi/node/functions.py", "tawazi/node/helpers.py", "tawazi/_helpers.py"]
CMP = {ast.Eq: ast.NotEq, ast.NotEq: ast.Eq, ast.Lt: ast.LtE, ast.LtE: ast.Lt, ast.Gt: ast.GtE, ast.GtE: ast.Gt,
       ast.Is: ast.IsNot, ast.IsNot: ast.Is, ast.In: ast.NotIn, ast.NotIn: ast.In}
BIN = {ast.Add: ast.Sub, ast.Sub: ast.Add, ast.BitOr: ast.BitAnd, ast.BitAnd: ast.BitOr}
NAMES = {"FIRST_COMPLETED": "ALL_COMPLETED", "ALL_COMPLETED": "FIRST_COMPLETED"}


def mutants_of(src: str):
    """Yield (description, lineno, mutated_source)."""
    tree = ast.parse(src)
    nodes = [n for n in ast.walk(tree)]
    # skip docstrings / type-only code: mutate only inside function bodies
    func_nodes = set()
    for f in ast.walk(tree):
        if isinstance(f, (ast.FunctionDef, ast.AsyncFunctionDef)):
            for n in ast.walk(f):
                func_nodes.add(id(n))

    def emit(desc, node, mutate):
        t2 = copy.deepcopy(tree)
        # locate the same node in the copy by position in walk order
        idx = nodes.index(node)
        n2 = list(ast.walk(t2))[idx]
        if mutate(n2) is False:
            return None
        ast.fix_missing_locations(t2)
        try:
            out = ast.unparse(t2)
            compile(out, "<mut>", "exec")
        except Exception:
            return None
        return (desc, getattr(node, "lineno", 0), out)

    for node in nodes:
        if id(node) not in func_nodes:
            continue
        if isinstance(node, ast.Compare) and len(node.ops) == 1 and type(node.ops[0]) in CMP:
            new = CMP[type(node.ops[0])]
            yield emit(f"compare {type(node.ops[0]).__name__}->{new.__name__}", node, lambda n, new=new: n.ops.__setitem__(0, new()))
        if isinstance(node, ast.BoolOp):
            new = ast.Or if isinstance(node.op, ast.And) else ast.And
            yield emit(f"boolop {type(node.op).__name__}->{new.__name__}", node, lambda n, new=new: setattr(n, "op", new()))
        if isinstance(node, (ast.If, ast.While, ast.IfExp)) and not (isinstance(node, ast.While) and isinstance(node.test, ast.Constant)):
            yield emit("negate condition", node, lambda n: setattr(n, "test", ast.UnaryOp(op=ast.Not(), operand=n.test)))
        if isinstance(node, ast.UnaryOp) and isinstance(node.op, ast.Not):
            def drop_not(n):
                n.op = ast.UAdd() if False else n.op
                return None
            # replace `not x` by `x`: done on the parent level is awkward; use double negation trick: not x -> not (not x)
            yield emit("remove not", node, lambda n: setattr(n, "operand", ast.UnaryOp(op=ast.Not(), operand=n.operand)))
        if isinstance(node, ast.BinOp) and type(node.op) in BIN:
            new = BIN[type(node.op)]
            yield emit(f"binop {type(node.op).__name__}->{new.__name__}", node, lambda n, new=new: setattr(n, "op", new()))
        if isinstance(node, ast.Constant) and isinstance(node.value, bool):
            yield emit(f"const {node.value}->{not node.value}", node, lambda n: setattr(n, "value", not n.value))
        elif isinstance(node, ast.Constant) and isinstance(node.value, int) and -3 <= node.value <= 10:
            yield emit(f"const {node.value}->{node.value + 1}", node, lambda n: setattr(n, "value", n.value + 1))
            if node.value > 0:
                yield emit(f"const {node.value}->{node.value - 1}", node, lambda n: setattr(n, "value", n.value - 1))
        if isinstance(node, ast.Name) and node.id in NAMES and isinstance(node.ctx, ast.Load):
            yield emit(f"name {node.id}->{NAMES[node.id]}", node, lambda n: setattr(n, "id", NAMES[n.id]))
        if isinstance(node, ast.Call):
            fn = node.func
            fname = fn.id if isinstance(fn, ast.Name) else fn.attr if isinstance(fn, ast.Attribute) else ""
            if "logger" in ast.unparse(fn) or fname in ("warn", "dump", "render", "node", "edge"):
                continue   # logging / drawing / pickling options: noise for the properties
            if fname in ("copy", "deepcopy") and len(node.args) == 1 and isinstance(fn, ast.Name):
                # copy(x) -> x : replace the call by its argument through the parent is awkward; wrap: (lambda v: v)(x)
                yield emit(f"{fname}(x)->x", node, lambda n: setattr(n, "func", ast.Lambda(
                    args=ast.arguments(posonlyargs=[], args=[ast.arg(arg="v")], kwonlyargs=[], kw_defaults=[], defaults=[]),
                    body=ast.Name(id="v", ctx=ast.Load()))))
            if len(node.args) >= 2 and fname not in ("isinstance", "issubclass", "getattr", "setattr", "zip", "range", "TypeVar"):
                yield emit(f"drop last positional arg of {fname}()", node, lambda n: n.args.pop())
            for i, kw in enumerate(node.keywords):
                if kw.arg is not None and fname not in ("field", "TypeVar"):
                    yield emit(f"drop keyword {kw.arg}= of {fname}()", node, lambda n, i=i: n.keywords.pop(i))
        if isinstance(node, (ast.Expr, ast.Assign, ast.AugAssign)) and not (
                isinstance(node, ast.Expr) and isinstance(node.value, ast.Constant)):
            # statement deletion (replace by pass) - skip logger calls, they are noise
            if isinstance(node, ast.Expr) and isinstance(node.value, ast.Call) and "logger" in ast.unparse(node.value.func):
                continue
            yield ("delete statement", node.lineno, None, nodes.index(node))


def gen_all(files):
    out = []
    for f in files:
        src = subprocess.run(["git", "-C", "/repo", "show", f"HEAD:{f}"], capture_output=True, text=True).stdout
        tree = ast.parse(src)
        nodes = list(ast.walk(tree))
        for m in mutants_of(src):
            if m is None:
                continue
            if len(m) == 4:
                desc, line, _, idx = m
                node = nodes[idx]
                t2 = copy.deepcopy(tree)
                n2 = list(ast.walk(t2))[idx]
                # replace statement n2 by Pass inside its parent body
                done = False
                for parent in ast.walk(t2):
                    for field in ("body", "orelse", "finalbody"):
                        body = getattr(parent, field, None)
                        if isinstance(body, list) and n2 in body:
                            body[body.index(n2)] = ast.Pass()
                            done = True
                if not done:
                    continue
                ast.fix_missing_locations(t2)
                try:
                    msrc = ast.unparse(t2)
                    compile(msrc, "<mut>", "exec")
                except Exception:
                    continue
                stmt_src = ast.unparse(node)[:70]
                out.append({"file": f, "line": line, "desc": f"delete: {stmt_src}", "src": msrc})
            else:
                desc, line, msrc = m
                out.append({"file": f, "line": line, "desc": desc, "src": msrc})
    # de-duplicate identical sources
    seen = set()
    uniq = []
    for m in out:
        k = (m["file"], m["src"])
        if k not in seen:
            seen.add(k)
            uniq.append(m)
    for i, m in enumerate(uniq):
        m["id"] = i
    return uniq


WORKDIR = None


def init_worker():
    global WORKDIR
    WORKDIR = tempfile.mkdtemp(prefix="twzamut-")
    ar = subprocess.run(["git", "-C", "/repo", "archive", "HEAD", "tawazi", "tests", "pyproject.toml"], capture_output=True)
    subprocess.run(["tar", "-x", "-C", WORKDIR], input=ar.stdout, check=True)


def run_one(job):
    m, seeds = job
    t0 = time.time()
    p = os.path.join(WORKDIR, m["file"])
    orig = open(p).read()
    res = {"id": m["id"], "file": m["file"], "line": m["line"], "desc": m["desc"]}
    try:
        open(p, "w").write(m["src"])
        env = dict(os.environ, PYTHONPATH=WORKDIR, PYTHONHASHSEED="0")
        try:
            r = subprocess.run(["/venv/bin/python", "-m", "pytest", "tests", "-x", "-q", "-p", "no:cacheprovider", "--no-cov", "--timeout=60",
                                "--deselect", "tests/test_resource.py::test_main_thread_resource_computation_time",
                                "--deselect", "tests/test_typing.py"], cwd=WORKDIR, env=env, capture_output=True, text=True, timeout=400)
            res["suite"] = "pass" if r.returncode == 0 else "fail"
        except subprocess.TimeoutExpired:
            res["suite"] = "timeout"
        if res["suite"] == "pass":
            job_file = os.path.join(WORKDIR, "smoke.json")
            out_file = os.path.join(WORKDIR, "smoke_out.json")
            json.dump({"seeds": seeds, "out": out_file, "hard_timeout": 1500}, open(job_file, "w"))
            env2 = dict(env, PYTHONPATH=ROOT + ":" + WORKDIR)
            try:
                r = subprocess.run(["/venv/bin/python", "-m", "sim.tool", "smoke", job_file], cwd=ROOT, env=env2, capture_output=True,
                                   text=True, timeout=1600)
                if r.returncode == 0 and os.path.exists(out_file):
                    res["smoke"] = json.load(open(out_file))
                    os.remove(out_file)
                else:
                    res["smoke"] = {"error": r.stderr[-600:]}
            except subprocess.TimeoutExpired:
                res["smoke"] = {"error": "timeout"}
    finally:
        open(p, "w").write(orig)
    res["wall"] = round(time.time() - t0, 1)
    return res


def main() -> int:
    ap = argparse.ArgumentParser()
    ap.add_argument("cmd", choices=["list", "run", "report"])
    ap.add_argument("--workers", type=int, default=14)
    ap.add_argument("--limit", type=int, default=0)
    ap.add_argument("--files")
    ap.add_argument("--seeds", type=int, default=250)
    ap.add_argument("--resume", action="store_true")
    a = ap.parse_args()
    files = a.files.split(",") if a.files else FILES
    out_path = os.path.join(ROOT, "selftest", "automut_results.jsonl")
    if a.cmd == "list":
        ms = gen_all(files)
        import collections
        c = collections.Counter(m["file"] for m in ms)
        print(len(ms), dict(c))
        return 0
    if a.cmd == "run":
        ms = gen_all(files)
        done = set()
        if a.resume and os.path.exists(out_path):
            for ln in open(out_path):
                done.add(json.loads(ln)["id"])
        ms = [m for m in ms if m["id"] not in done]
        if a.limit:
            import random
            random.Random(1).shuffle(ms)
            ms = ms[:a.limit]
        print(len(ms), "mutants to run")
        with mp.get_context("fork").Pool(a.workers, initializer=init_worker) as pool, open(out_path, "a" if a.resume else "w") as fh:
            for i, r in enumerate(pool.imap_unordered(run_one, [(m, a.seeds) for m in ms])):
                fh.write(json.dumps(r) + "\n")
                fh.flush()
                if i % 20 == 0:
                    print(i, r["file"], r["line"], r["desc"][:50], r["suite"], flush=True)
        for d in os.listdir(tempfile.gettempdir()):
            if d.startswith("twzamut-"):
                shutil.rmtree(os.path.join(tempfile.gettempdir(), d), ignore_errors=True)
        return 0
    if a.cmd == "report":
        rows = [json.loads(ln) for ln in open(out_path)]
        n = len(rows)
        by = {"fail": 0, "timeout": 0, "pass": 0}
        surv = []
        caught = 0
        for r in rows:
            by[r["suite"]] = by.get(r["suite"], 0) + 1
            if r["suite"] == "pass":
                sm = r.get("smoke", {})
                hits = {k: v for k, v in sm.get("props", {}).items() if v}
                if hits or sm.get("error"):
                    caught += 1
                else:
                    surv.append(r)
        with open(os.path.join(ROOT, "selftest", "AUTOMUT.md"), "w") as fh:
            fh.write(f"# Mutation analysis (selftest/automut.py)\n\n{n} syntactic mutants of the scheduler, graph, DAG and node modules.\n\n"
                     f"* killed by tawazi's own suite: {by['fail'] + by.get('timeout', 0)} ({by.get('timeout', 0)} by time-out)\n"
                     f"* pass tawazi's suite: {by['pass']}\n"
                     f"  * of those, reported by at least one property check in a smoke run: {caught}\n"
                     f"  * survive both: {len(surv)} (equivalent mutants or gaps; listed below)\n\n"
                     "| file:line | mutation |\n|---|---|\n")
            for r in sorted(surv, key=lambda r: (r["file"], r["line"])):
                fh.write(f"| {r['file']}:{r['line']} | {r['desc']} |\n")
        print(n, by, "caught by checks:", caught, "survivors:", len(surv))
        return 0
    return 1


if __name__ == "__main__":
    sys.exit(main())
