#!/venv/bin/python
"""Sensitivity self-test: apply small, compiling mutations of tawazi to a scratch copy of /repo (outside /repo and
/verif, removed afterwards), run the named property checks against the copy (VERIF_REPO) and record who catches what.

usage: selftest/mutants.py [--suite] [--only NAME,...] [--seeds N]
"""
from __future__ import annotations

import argparse
import json
import os
import shutil
import subprocess
import sys
import tempfile
import time

ROOT = os.path.dirname(os.path.dirname(os.path.abspath(__file__)))
H = "tawazi/_dag/helpers.py"
G = "tawazi/_dag/digraph.py"
D = "tawazi/_dag/dag.py"
N = "tawazi/node/node.py"

# (name, file, old, new, properties expected to catch, note)
MUTANTS = [
    ("m01_no_concurrency_guard", H, "if running_threads() == max_concurrency or len(runnable_xns_ids) == 0:",
     "if len(runnable_xns_ids) == 0:", ["C04"], "drop the in-flight == max_concurrency guard"),
    ("m02_step6_all_completed", H, """            conc_done, conc_running, runnable_xns_ids = wait_for_finished_nodes(
                FIRST_COMPLETED, graph, conc_futures, conc_done, conc_running, runnable_xns_ids
            )

        # 3. if no runnable node exist""", """            conc_done, conc_running, runnable_xns_ids = wait_for_finished_nodes(
                ALL_COMPLETED, graph, conc_futures, conc_done, conc_running, runnable_xns_ids
            )

        # 3. if no runnable node exist""", ["C08"], "blocking wait of step 6 waits for all running nodes"),
    ("m03_min_priority", H, "highest_priority_id = max(runnable_xns_ids", "highest_priority_id = min(runnable_xns_ids", ["C06"],
     "pick the lowest compound priority"),
    ("m04_no_drain_before_sequential", H, "if xn.is_sequential and running_threads() != 0:", "if False and xn.is_sequential:", ["C05"],
     "do not drain before a sequential node"),
    ("m05_no_wait_after_sequential", H, """        if xn.is_sequential:
            logger.debug("Wait for all Futures""", """        if False:
            logger.debug("Wait for all Futures""", ["C05"], "do not wait for the sequential node to finish"),
    ("m06_release_at_indegree_2", G, "if self.in_degree[new_root_node] == 1", "if self.in_degree[new_root_node] <= 2", ["C02", "C03"],
     "successors released when in-degree <= 2"),
    ("m07_own_priority_only", H, "key=lambda id_: graph.compound_priority[id_]", "key=lambda id_: exec_nodes[id_].priority", ["C06"],
     "choose by own priority instead of the compound table"),
    ("m08_swallow_failed_future", H, """        _ = futures[future_id].result()  # raise exception by calling the future
        logger.debug("Remove ExecNode {} from the graph", future_id)
        runnable_xns_ids |= graph.remove_root_node(future_id)

    return done, running, runnable_xns_ids


async def""", """        try:
            _ = futures[future_id].result()  # raise exception by calling the future
        except BaseException:
            pass
        logger.debug("Remove ExecNode {} from the graph", future_id)
        runnable_xns_ids |= graph.remove_root_node(future_id)

    return done, running, runnable_xns_ids


async def""", ["C14"], "failed thread future is swallowed"),
    ("m09_inline_when_mc1", H, "        if xn.resource == Resource.thread:\n", "        if xn.resource == Resource.thread and max_concurrency > 1:\n", ["C04"],
     "thread nodes run inline when max_concurrency == 1"),
    ("m10_skip_successors_of_deactivated", H, """            results[xn.id] = None
            runnable_xns_ids |= graph.remove_root_node(xn.id)""", """            results[xn.id] = None
            graph.remove_root_node(xn.id)""", ["C09", "C10"], "successors of a deactivated node are never released"),
    ("m11_setup_never_copied_back", D, "            if xn.setup and not xn.executed(self.results):\n                logger.debug(\"Setting result of setup ExecNode {} to {}\", node_id, result)",
     "            if False and xn.setup and not xn.executed(self.results):\n                logger.debug(\"Setting result of setup ExecNode {} to {}\", node_id, result)", ["C11"],
     "sync DAG never stores setup results"),
    ("m12_exclude_after_target", G, """        # then exclude nodes
        if exclude_nodes is not None:
            graph.remove_nodes_from(graph.multiple_nodes_successors(exclude_nodes))

        # lastly select additional nodes
        if target_nodes is not None:
            graph = graph.minimal_induced_subgraph(target_nodes).copy()
""", """        # lastly select additional nodes
        if target_nodes is not None:
            graph = graph.minimal_induced_subgraph(target_nodes).copy()

        # then exclude nodes
        if exclude_nodes is not None:
            graph.remove_nodes_from(graph.multiple_nodes_successors([n for n in exclude_nodes if n in graph]))
""", ["C12"], "exclusion applied after target selection"),
    ("m13_debug_pull_any_parent", G, "if set(self.predecessors(successor_id)).issubset(set(leaves_ids)):", "if True:", ["C13"],
     "debug successors pulled in regardless of their other parents"),
    ("m14_args_written_into_dag_results", H, "    # copy results in order to avoid modifying the original dict\n    results = copy(results)\n",
     "    # copy results in order to avoid modifying the original dict\n", ["C15", "C16", "C17"],
     "call arguments are written into the DAG's own results map (leak between calls / threads / awaits)"),
    ("m15_seq_check_only_conc", H, "if xn.is_sequential and running_threads() != 0:", "if xn.is_sequential and len(conc_running) != 0:", ["C05"],
     "sequential drain ignores async-thread nodes in flight"),
    ("m16_guard_off_by_one", H, "if running_threads() == max_concurrency or", "if running_threads() == max_concurrency + 1 or", ["C04"],
     "concurrency guard off by one"),
    ("r01_revert_P1", "revert", "80d0cb2", "", ["C07", "C06"], "revert fix: compound priority per path"),
    ("r02_revert_D6", "revert", "31dcaba", "", ["C07", "C06", "C13"], "revert fix: tables lost under selection"),
    ("r03_revert_D4", "revert", "0e556e7", "", ["C10", "C01"], "revert fix: indexed activation flag"),
    ("r04_revert_D12", "revert", "3129148", "", ["C10", "C01"], "revert fix: constant False on nested DAG"),
    ("r05_revert_D8", "revert", "c368ba9", "", ["C20", "C01"], "revert fix: explicit argument vs default of nested DAG"),
    ("r10_revert_P8", "revert", "1d78eef", "", ["C20"], "revert fix: argument stubs of a nested (composed) DAG registered through the usage counter"),
    ("m18_async_as_thread", H, "        if xn.resource == Resource.thread:\n", "        if xn.resource in (Resource.thread, Resource.async_thread):\n", ["C17"],
     "async-thread nodes are submitted and waited like thread nodes (loop blocked)"),
    ("m17_active_whole_value", H, "return bool(xn.active.result(results))", "return bool(results[xn.active.id])", ["C10"],
     "activation ignores the key path (re-introduces D4)"),
]


FIRST_ONLY = {"m08_swallow_failed_future"}


def sh(cmd, **kw):
    return subprocess.run(cmd, text=True, capture_output=True, **kw)


def main() -> int:
    ap = argparse.ArgumentParser()
    ap.add_argument("--suite", action="store_true", help="also run tawazi's own test-suite on every mutant")
    ap.add_argument("--only")
    ap.add_argument("--seeds", type=int, default=0)
    ap.add_argument("--props", help="override: run these checks for every mutant (comma separated)")
    a = ap.parse_args()
    only = set(a.only.split(",")) if a.only else None
    rows = []
    for name, f, old, new, props, note in MUTANTS:
        if only and name not in only:
            continue
        tmp = tempfile.mkdtemp(prefix="twzmut-")
        try:
            dst = os.path.join(tmp, "repo")
            shutil.copytree("/repo", dst, ignore=shutil.ignore_patterns(".git", "__pycache__", "*.pdf", "documentation", "cov.info"))
            if f == "revert":
                diff = sh(["git", "-C", "/repo", "show", old]).stdout
                r = subprocess.run(["patch", "-R", "-p1", "-s"], input=diff, text=True, cwd=dst, capture_output=True)
                if r.returncode != 0:
                    rows.append((name, "NOT-APPLICABLE", "revert failed: " + r.stdout[-200:], "", note))
                    print(name, "revert failed", r.stdout[-300:])
                    continue
                s = old = new = ""
                p = os.path.join(dst, "tawazi/__init__.py")
                s = open(p).read()
                old, new = s, s
            else:
                p = os.path.join(dst, f)
                s = open(p).read()
            if s.count(old) != 1 and name not in FIRST_ONLY:
                rows.append((name, "NOT-APPLICABLE", f"pattern found {s.count(old)}x", "", note))
                print(name, "pattern not found exactly once; skipped")
                continue
            open(p, "w").write(s.replace(old, new, 1))
            suite = ""
            if a.suite:
                r = sh(["/venv/bin/python", "-m", "pytest", "-q", "-x", "-p", "no:cacheprovider", "--no-cov", "--timeout=300",
                        "--deselect", "tests/test_resource.py::test_main_thread_resource_computation_time"], cwd=dst,
                       env=dict(os.environ, PYTHONPATH=dst), timeout=900)
                tail = [ln for ln in r.stdout.splitlines() if " passed" in ln or " failed" in ln]
                suite = tail[-1].strip() if tail else f"exit {r.returncode}"
            res = {}
            for pid in (a.props.split(",") if a.props else props):
                cmd = [os.path.join(ROOT, "check"), pid, "--no-evidence", "--no-shrink"]
                if a.seeds:
                    cmd += ["--seeds", str(a.seeds)]
                t0 = time.time()
                r = sh(cmd, cwd=ROOT, env=dict(os.environ, VERIF_REPO=dst), timeout=1200)
                first = next((ln.strip() for ln in r.stdout.splitlines() if ln.startswith("  C")), "")
                res[pid] = (r.returncode, round(time.time() - t0, 1), first[:160])
            rows.append((name, "; ".join(f"{k}: exit {v[0]} ({v[1]}s) {v[2]}" for k, v in res.items()), suite, "", note))
            print(name, rows[-1][1], "| suite:", suite)
        finally:
            shutil.rmtree(tmp, ignore_errors=True)
    with open(os.path.join(ROOT, "selftest", "mutants_last.json"), "w") as fh:
        json.dump(rows, fh, indent=1)
    if not only:
        with open(os.path.join(ROOT, "selftest", "MUTANTS.md"), "w") as fh:
            fh.write("# Sensitivity self-test (selftest/mutants.py)\n\nEach mutant is applied to a scratch copy of /repo (removed afterwards); "
                     "`suite` is tawazi's own test-suite on the mutant; the checks are the quick tier with VERIF_REPO pointing at the copy.\n\n"
                     "| mutant | what | tawazi suite | checks (exit 1 = caught) |\n|---|---|---|---|\n")
            for name, res, suite, _, note in rows:
                fh.write(f"| {name} | {note} | {suite or 'not run'} | {res} |\n")
    return 0


if __name__ == "__main__":
    sys.exit(main())
