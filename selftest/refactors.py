#!/venv/bin/python
"""False-alarm regression: property-preserving refactors of tawazi (selftest/refactors/*.diff) are applied to a scratch copy
of /repo's HEAD (removed afterwards); tawazi's suite must pass on it and EVERY registered check must exit 0 (known findings
may disappear, nothing new may be reported).

usage: selftest/refactors.py [--seeds N] [--only name]
"""
from __future__ import annotations

import argparse
import glob
import json
import os
import shutil
import subprocess
import sys
import tempfile
import time

ROOT = os.path.dirname(os.path.dirname(os.path.abspath(__file__)))


def sh(cmd, **kw):
    return subprocess.run(cmd, text=True, capture_output=True, **kw)


def main() -> int:
    ap = argparse.ArgumentParser()
    ap.add_argument("--seeds", type=int, default=1500)
    ap.add_argument("--only")
    a = ap.parse_args()
    props = [c["property_id"] for c in json.load(open(os.path.join(ROOT, "MANIFEST.json")))["checks"]]
    rows = []
    bad = 0
    for diff in sorted(glob.glob(os.path.join(ROOT, "selftest", "refactors", "*.diff"))):
        name = os.path.basename(diff)[:-5]
        if a.only and a.only != name:
            continue
        tmp = tempfile.mkdtemp(prefix="twzref-")
        try:
            dst = os.path.join(tmp, "repo")
            os.makedirs(dst)
            ar = subprocess.run(["git", "-C", "/repo", "archive", "HEAD", "tawazi", "tests", "pyproject.toml"], capture_output=True)
            subprocess.run(["tar", "-x", "-C", dst], input=ar.stdout, check=True)
            r = sh(["patch", "-p1", "-s", "-i", diff], cwd=dst)
            if r.returncode != 0:
                print(name, "does not apply:", r.stdout[-300:])
                bad += 1
                continue
            t = sh(["/venv/bin/python", "-m", "pytest", "tests", "-q", "-p", "no:cacheprovider", "--no-cov", "--timeout=600",
                    "--deselect", "tests/test_resource.py::test_main_thread_resource_computation_time"], cwd=dst,
                   env=dict(os.environ, PYTHONPATH=dst), timeout=1800)
            tail = [ln for ln in t.stdout.splitlines() if " passed" in ln or " failed" in ln]
            suite = tail[-1].strip() if tail else f"exit {t.returncode}"
            res = {}
            for pid in props:
                t0 = time.time()
                r = sh([os.path.join(ROOT, "check"), pid, "--no-evidence", "--no-shrink", "--seeds", str(a.seeds)], cwd=ROOT,
                       env=dict(os.environ, VERIF_REPO=dst), timeout=3600)
                first = next((ln.strip() for ln in r.stdout.splitlines() if ln.startswith("  C") or ln.startswith("HARNESS")), "")
                notes = [ln.strip() for ln in r.stdout.splitlines() if ln.startswith("note:")]
                res[pid] = (r.returncode, round(time.time() - t0, 1), first[:160], notes)
                if r.returncode != 0:
                    bad += 1
            alarms = {k: v for k, v in res.items() if v[0] != 0}
            gone = sorted({n for v in res.values() for n in v[3]})
            rows.append((name, suite, alarms, gone))
            print(name, "| suite:", suite, "| alarms:", alarms or "none", "| notes:", gone)
        finally:
            shutil.rmtree(tmp, ignore_errors=True)
    if not a.only:
        with open(os.path.join(ROOT, "selftest", "REFACTORS.md"), "w") as fh:
            fh.write("# False-alarm regression (selftest/refactors.py)\n\nProperty-preserving refactors applied to a scratch copy; all 20 quick checks "
                     f"(--seeds {a.seeds}) must exit 0.\n\n| refactor | tawazi suite | checks raising an alarm | notes |\n|---|---|---|---|\n")
            for name, suite, alarms, gone in rows:
                fh.write(f"| {name} | {suite} | {alarms or 'none'} | {'; '.join(gone) or '-'} |\n")
    return 1 if bad else 0


if __name__ == "__main__":
    sys.exit(main())
