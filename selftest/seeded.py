#!/venv/bin/python
"""Seeded breakages written by independent sub-agents (each given only the text of one property).

  selftest/seeded.py confirm /tmp/wt-C05 C05 A      confirm in the scratch worktree: demo passes without / fails with the patch,
                                                    tawazi's own suite passes with the patch; then store under /verif/seeded/C05_A/
  selftest/seeded.py run [NAME ...] [--props C05,C09] [--tier quick]
                                                    apply each stored patch to /repo (git apply), run the checks, undo (git checkout -- .)
"""
from __future__ import annotations

import argparse
import json
import os
import shutil
import subprocess
import sys
import time

ROOT = os.path.dirname(os.path.dirname(os.path.abspath(__file__)))
SEEDED = os.path.join(ROOT, "seeded")
PY = "/venv/bin/python"


def sh(cmd, **kw):
    return subprocess.run(cmd, text=True, capture_output=True, **kw)


def confirm(wt: str, prop: str, var: str, suffix: str = "") -> int:
    env = dict(os.environ, PYTHONPATH=wt)
    patch = os.path.join(wt, f"patch_{var}.diff")
    demo = os.path.join(wt, f"demo_{var}.py")
    sh(["git", "-C", wt, "checkout", "--", "tawazi"])
    r0 = sh([PY, demo], cwd=wt, env=env, timeout=300)
    a = sh(["git", "-C", wt, "apply", patch])
    if a.returncode != 0:
        print("patch does not apply:", a.stderr)
        return 1
    try:
        r1 = sh([PY, demo], cwd=wt, env=env, timeout=300)
        t = sh([PY, "-m", "pytest", "-q", "-p", "no:cacheprovider", "--no-cov", "--timeout=600",
                "--deselect", "tests/test_resource.py::test_main_thread_resource_computation_time"], cwd=wt, env=env, timeout=1200)
        tail = [ln for ln in t.stdout.splitlines() if " passed" in ln or " failed" in ln]
        suite = tail[-1].strip() if tail else f"exit {t.returncode}"
    finally:
        sh(["git", "-C", wt, "checkout", "--", "tawazi"])
        for f in ("Digraph.gv", "Digraph.gv.pdf", "pytest-junit.xml", "cov.info"):
            try:
                os.remove(os.path.join(wt, f))
            except OSError:
                pass
    ok = r0.returncode == 0 and r1.returncode != 0 and t.returncode == 0
    print(f"{prop}_{var}{suffix}: demo without patch exit {r0.returncode}, with patch exit {r1.returncode}, suite: {suite} -> {'CONFIRMED' if ok else 'REJECTED'}")
    if not ok:
        print(r0.stderr[-500:], r1.stderr[-500:])
        return 1
    dst = os.path.join(SEEDED, f"{prop}_{var}{suffix}")
    os.makedirs(dst, exist_ok=True)
    shutil.copy(patch, os.path.join(dst, "patch.diff"))
    shutil.copy(demo, os.path.join(dst, "demo.py"))
    notes = os.path.join(wt, "NOTES.md")
    if os.path.exists(notes):
        shutil.copy(notes, os.path.join(dst, "NOTES_agent.md"))
    meta = {"property": prop, "variant": var + suffix, "confirmed": {"demo_without_patch_exit": r0.returncode, "demo_with_patch_exit": r1.returncode,
                                                            "suite_with_patch": suite,
                                                            "demo_with_patch_tail": (r1.stderr or r1.stdout)[-300:]},
            "confirmed_by": "selftest/seeded.py confirm (scratch worktree, PYTHONPATH=<worktree>)", "needs": "see NOTES_agent.md",
            "checks": {}}
    mp = os.path.join(dst, "meta.json")
    if os.path.exists(mp):
        old = json.load(open(mp))
        meta["checks"] = old.get("checks", {})
        meta["needs"] = old.get("needs", meta["needs"])
    json.dump(meta, open(mp, "w"), indent=1)
    return 0


def run(names, props, tier, seeds) -> int:
    names = names or sorted(os.listdir(SEEDED))
    for name in names:
        d = os.path.join(SEEDED, name)
        mp = os.path.join(d, "meta.json")
        if not os.path.exists(mp):
            continue
        meta = json.load(open(mp))
        st = sh(["git", "-C", "/repo", "status", "--porcelain", "--untracked-files=no"]).stdout.strip()
        if st:
            print("refusing: /repo has uncommitted changes:", st)
            return 1
        a = sh(["git", "-C", "/repo", "apply", os.path.join(d, "patch.diff")])
        if a.returncode != 0:
            print(name, "patch does not apply to /repo:", a.stderr[:300])
            continue
        try:
            for pid in (props or [meta["property"]]):
                cmd = [os.path.join(ROOT, "check"), pid, "--tier", tier, "--no-evidence"]
                if os.environ.get("SEEDED_NO_SHRINK"):
                    cmd.append("--no-shrink")   # (the replay is still written and verified twice; only the minimisation is skipped)
                if seeds:
                    cmd += ["--seeds", str(seeds)]
                t0 = time.time()
                r = sh(cmd, cwd=ROOT, timeout=3600)
                first = next((ln.strip() for ln in r.stdout.splitlines() if ln.startswith("  C")), "")
                import re
                counts = [int(m.group(1)) for m in re.finditer(r"reported by (\d+) simulated run", r.stdout)]
                meta["checks"][pid] = {"exit": r.returncode, "wall_s": round(time.time() - t0, 1), "first_violation": first[:300],
                                       "runs_reporting": sum(counts), "cmd": " ".join(cmd[-4:])}
                print(f"{name}: check {pid} exit {r.returncode} ({time.time() - t0:.0f}s) [{sum(counts)} runs] {first[:200]}")
        finally:
            sh(["git", "-C", "/repo", "checkout", "--", "."])
        json.dump(meta, open(mp, "w"), indent=1)
    return 0


def report() -> int:
    lines = ["# Seeded breakages written by independent sub-agents\n",
             "Each agent saw only the text of one property and worked in its own scratch worktree. A change is kept only after "
             "`selftest/seeded.py confirm` showed: the demonstration passes on the unchanged code, fails with the patch, and tawazi's "
             "own suite still passes with the patch. `checks` are the registered quick commands run with the patch applied to /repo "
             "(git apply … ; git checkout -- . afterwards).\n",
             "| id | tawazi suite with patch | demo without / with patch | check results (exit 1 = caught) |", "|---|---|---|---|"]
    for name in sorted(os.listdir(SEEDED)):
        mp = os.path.join(SEEDED, name, "meta.json")
        if not os.path.exists(mp):
            continue
        m = json.load(open(mp))
        c = m["confirmed"]
        chk = "; ".join(f"{k}: exit {v['exit']} ({v.get('runs_reporting', '?')} runs) — {v['first_violation'][:110]}" for k, v in sorted(m["checks"].items()))
        lines.append(f"| {name} | {c['suite_with_patch'].split(',')[0]} | {c['demo_without_patch_exit']} / {c['demo_with_patch_exit']} | {chk} |")
    notes = os.path.join(SEEDED, "NOTES.md")
    extra = open(notes).read() if os.path.exists(notes) else ""
    open(os.path.join(SEEDED, "RESULTS.md"), "w").write("\n".join(lines) + "\n\n" + extra)
    return 0


def main() -> int:
    ap = argparse.ArgumentParser()
    ap.add_argument("cmd", choices=["confirm", "run", "report"])
    ap.add_argument("args", nargs="*")
    ap.add_argument("--props")
    ap.add_argument("--tier", default="quick")
    ap.add_argument("--seeds", type=int, default=0)
    a = ap.parse_args()
    if a.cmd == "confirm":
        return confirm(*a.args)
    if a.cmd == "report":
        return report()
    return run(a.args, a.props.split(",") if a.props else None, a.tier, a.seeds)


if __name__ == "__main__":
    sys.exit(main())
